"""PN53x family monitors for C13 and C14: pn531, pn532 (serial), pn533, rcs956, acr122 (CCID envelope),
arygon (PN531 = "arygonA" / PN532 = "arygonB" behind the "2" prefix protocol), and "pn532rt" = the pn532 driver on
the *real* nfc.clf.transport.TTY class over a simulated serial port (byte stream: a short frame is what
pyserial's read() returns when fewer bytes than asked for arrive before the time-out).

Every driver is created by its own init(transport) on a simulated transport (vf.sim.chipsets.pn53x) and sits
under a real nfc.clf.ContactlessFrontend; target kinds are entered through the real clf.sense()/clf.listen().

C13  one clf.exchange() per (driver x target kind x host command index k x status byte / host-link fault).
     host-link faults are the named ones of the link type plus, uniformly for usb/tty/arygon/ccid, the response
     transfer cut to every length 1..len-1 ("trunc"; frame links also the ACK cut to 1..5 octets, the CCID link
     also a well formed CCID message whose pseudo-APDU is cut to 0..len-1 octets).
     oracle: the call returns bytes/bytearray (None only as a listening target) or raises an
     nfc.clf.CommunicationError subclass or IOError/OSError.  Finer clauses only where manual and driver
     documentation agree: a transport-level fault (write fails / no or failing read for the ACK / hard read error
     for the response) at any host command of exchange(), sense() or listen() -> IOError only;
     status 01h of the RF exchange command as initiator -> TimeoutError and every other error code of it ->
     TransmissionError (never TimeoutError / BrokenLinkError / IOError; InDataExchange: the six bit error code); as
     target every error code of TgGetInitiatorCommand / TgResponseToInitiator -> TransmissionError, except 31h on the
     RC-S956, which its manual defines as "Initiator RF-OFF state detected" (BrokenLinkError exactly, at both host
     commands: table RELEASED_EXACT), 0Ah / 29h / 31h elsewhere (any CommunicationError subclass: the manuals do not
     make them field loss) and 01h
     (TimeoutError or TransmissionError) - asked for all 256 values because status octets and OS errno values are
     different number spaces (6Eh = ETIMEDOUT, 05h = EIO, 13h = ENODEV); the mirror image on the host link: a
     transport exception after the ACK whose errno equals a special-cased status code (1, 10, 41, 49) -> IOError;
     chip silent after
     the ACK of the RF exchange command -> TimeoutError (exchange() docstring); chip silent after the ACK of a host
     command that does not wait for the RF side (ReadRegister, WriteRegister, RFConfiguration, TgResponseToInitiator):
     observed and counted only (nfc.clf.TimeoutError there is inside the letter of the statement); RC-S956 status 31h (RF-off) of TgGetInitiatorCommand ->
     BrokenLinkError; CIU RFOffIRq while a FeliCa listen target -> BrokenLinkError.
     Data fidelity: whenever exchange() returns octets - in the reference run, next to any injected action (missing or
     doubled ACK, surplus octets, a cut pseudo-APDU that is still a valid envelope ...) and in the exchange after it -
     they are what the other side sent according to the valid answer the simulated chip really handed over for the RF
     command (CRC_A octets removed where the CIU left them in), or, where the data come through the CIU FIFO, equal to
     the reference run if every host command got the same valid answer as there.
     Time-out argument: target role exchange() with time-out 0 (nfc.dep: send the last response, do not wait) and None
     (default of Device.send_rsp_recv_cmd), with response data and receive-only, each followed by a regular exchange.
     Two faults in a row: chip silent after the ACK of any host command and the cancel ACK the driver then writes
     fails too; an error status / silence at the RF command and a hard transport fault at the first host command of
     the next exchange (-> IOError).
     Concrete type clause ("driver-internal exception types never escape"): the type of whatever exchange() raises
     is itself nfc.clf.CommunicationError / TimeoutError / TransmissionError / ProtocolError / BrokenLinkError /
     UnsupportedTargetError or a builtin OSError class; pn53x.Chipset.Error derives from TransmissionError since
     8c4b67a, but a caller that sees it still sees a driver-internal type (judged for every action at every host
     command and for the follow-up exchange).
     Well formed envelopes with short / misordered content ("payload": frame links: right LCS/DCS around
     {-, D5, D4, 7F, D5 RC, D5 wrong-RC, RC, RC D5} x {-, 00, 01 xx, 01 xx 00, 00 01}; ACR122U: well formed CCID message whose pseudo
     APDU response is any string of 0..6 octets built from D5, RC, 90 00, 63 00, 90, 00, arbitrary octets - also the
     ones that end in the success status word 9000 with nothing or too little in front) at every host command of
     exchange() and of sense()/listen(): coarse clause (IOError or a documented CommunicationError, nothing else).
     RF status clause, at the commands that hand RF data to / fetch it from the chip (InCommunicateThru,
     InDataExchange, TgGetInitiatorCommand, TgResponseToInitiator; TgGetData/TgSetData are never used by
     exchange()): every status value is sent bare and (quick: a structured subset, thorough: all) followed by the
     octets the regular response has behind the status; status 00h must come back as exactly the reference
     data, an error status (the whole byte; for InDataExchange/TgGetData the six bit error code, bits 7/6 being
     the NAD/MI flags) must never come back as received data.
C14  (a) every frame a Chipset.command() writes is valid under vf.ref.frames and carries exactly the payload (payloads
         that contain the start code / an ACK / a NACK included; data field at most 265 octets, PN531 255), and so is
         every frame written while the driver is operated: init(), sense()/listen() into every supported kind, exchange,
         an exchange in which the chip falls silent (cancel ACK), close() - ACK frames and the ACR122U reader commands
         (LED/buzzer, PICC parameter, version: length byte checked) included (run_operation)
     (b) a mutated response is returned as data only if vf.ref.frames calls it a valid response to that
         command with that data; everything else must raise IOError (Chipset.Error only for a checksum-valid
         frame with TFI 7Fh).  Besides bit flips, cuts, extensions, sum preserving pairs and random substitutions:
         every structural octet (preamble, start code, LEN/LCS resp. FF FF LENM LENL LCS, TFI, response code, DCS,
         postamble; ACR122U: bMessageType, dwLength, D5, response code, SW1 SW2) takes each of the 255 other values,
         once as it is and once with the covering checksum recomputed, so that exactly one clause of the validator fails
         (counters *_mut_only_<clause>_rejected); response codes of ten commands; extended frames of few octets; the
         read-only path Chipset.command(code, None, t); an ACK and the response handed over by the transport in one
         piece (refused, or the response part judged like any response)
     (c) nfc.clf.device CRC_A/CRC_B helpers equal vf.ref.crc; single-bit corruptions are rejected; the driver
         side CRC checks (Type 2 Tag READ through InCommunicateThru, Type 1 Tag READ8 through the CIU) never
         return a frame with a wrong CRC as data; the same for Type 2 Tag platform targets of every SEL_RES value
         with (SEL_RES & 60h) == 0 (run_selres_crc), where intact frames must come back without the CRC octets.
     (d) what the driver hands to the chip for transmission is the caller's command followed by the ISO CRC of
         exactly that command where the driver appends it in software (Type 1 Tag READ8/WRITE-E8/WRITE-NE8/RSEG
         octet-wise through the CIU on PN532/PN533: CRC_B) and the bare command where chip hardware/firmware
         appends it (InCommunicateThru with TxCRCEn, InDataExchange; a command || CRC_A/CRC_B reference is ready
         for a driver that clears TxCRCEn) - for the first transmission and for every retransmission of the *same
         bytearray object* after a time-out, a CRC error, a host-link error or a success, through clf.exchange()
         and through the real retry loop of nfc.tag.tt1.Type1Tag.transceive (run_retx).  "The driver leaves the
         caller's buffer unchanged" is recorded as an observation only (retx_caller_buffer_modified).
"""
import random

from vf.core.rec import exc_sig
from vf.ref import crc as refcrc
from vf.ref import frames as F

ASSUMPTIONS = [
    "vf.sim.chipsets.pn53x answers host commands as the PN531/PN532/PN533/RC-S956 manuals describe (checked against the literal transcripts of the repository's driver tests at the start of every shard)",
    "vf.ref.frames is a faithful reading of the PN532/PN533 host frame structure, the CCID bulk message header and the ACR122U pseudo-APDU envelope; a host frame with more than one preamble byte is legal only on serial links",
    "vf.ref.crc is a faithful reading of ISO/IEC 14443-3 Annex B (its worked examples are test vectors)",
    "CCID header bytes bSlot/bSeq/bStatus/bError/bChainParameter of an ACR122U answer are not judged (no checksum protects them and the property names framing, identifier, response code and status word only)",
    "a host-link fault changes what the host reads or makes the write fail; the chip still executes the command (not when the write fails)",
    "a transport exception while the command frame is written or the ACK frame awaited (any errno, ETIMEDOUT included), and a transport exception other than ETIMEDOUT while the response is awaited, is a host-link failure and must be reported as IOError; only errors nfc/clf/transport.py can raise at that point are injected (USB read ETIMEDOUT/EIO/ENODEV, USB write EIO/ENODEV, serial additionally IOError without errno from pyserial), plus - response phase only - IOError with errno 1/10/41/49, which today's transport.py does not raise: they stand for 'a transport exception with some other errno' and are chosen because the numbers coincide with chipset status codes the drivers special-case",
    "C13 status class clause: the status octet of an RF command and the errno of a transport exception are different number spaces; error code 01h of InCommunicateThru/InDataExchange is the chip's RF time-out, no other code is; no error code of an initiator command means that the field was lost; as target only status 31h of the RC-S956 (manual: 'Initiator RF-OFF state detected while operating as Target') is unambiguously field loss -> BrokenLinkError whichever of the two host commands of the exchange the chip reports it at; 0Ah (RF field not activated in time), 29h (released by the initiator), 2Fh (RC-S956: already deselected by the initiator) and 31h on the chips whose manuals do not define it may be reported as any CommunicationError subclass, and so may 0Ah and 2Bh (Type B card has disappeared) as initiator",
    "C13 concrete type clause: the documented public exception classes are nfc.clf.CommunicationError, TimeoutError, TransmissionError, ProtocolError, BrokenLinkError, UnsupportedTargetError and the builtin IOError/OSError classes (including the errno subclasses Python itself selects); a class defined in a driver module is driver-internal even if it derives from one of these",
    "the CIU appends/verifies CRC_A for InCommunicateThru at 106 kbps Type A exactly when CIU_TxMode.TxCRCEn / CIU_RxMode.RxCRCEn (bit 7) are set, reports a failed check as status 02h, and hands the received octets over unchanged when RxCRCEn is clear",
    "C13 finer clauses: PN53x status 01h and a silent chip after the ACK of a command that waits for the other side (InCommunicateThru, InDataExchange, TgGetInitiatorCommand) mean time-out; RC-S956 status 31h and CIU_DivIRq.RFOffIRq mean the remote side left",
    "C13 silent chip observation: ReadRegister, WriteRegister, RFConfiguration and TgResponseToInitiator are answered by the chip within its own processing time, whatever the other side does; how a chip that acknowledges such a command and never answers it is reported (IOError or nfc.clf.TimeoutError) is recorded, not judged: both are inside the letter of the statement",
    "C13 time-out argument: 0 (nfc.dep sends DSL_RES / RLS_RES that way: do not wait) and None (default of nfc.clf.device.Device.send_rsp_recv_cmd, implemented as 'no limit' by the FeliCa listen path, rcs380 and udp) are legal time-out arguments of a target role exchange(); None as return value is accepted there",
    "C13 data fidelity: a valid answer of InCommunicateThru / InDataExchange / TgGetInitiatorCommand with a success status carries behind the status octet exactly the octets received from the other side (at 106 kbps Type A with CIU_RxMode.RxCRCEn clear followed by the two CRC_A octets when three or more octets arrived); the simulated field is deterministic, so identical chip answers mean identical data",
    "C14 frame limits: the data field TFI..PDn of a host command has at most 265 octets on PN532/PN533/RC-S956 (user manuals: 264 + TFI) and 255 on the PN531 (normal frames only); the chip may use the extended frame format for a response of any length; an ACK frame and the response frame arriving in one transfer may be refused as a whole or taken apart, but the response part is validated like any response",
    "C14 ACR122U reader commands: FF 00 48 00 00 (version), FF 00 51 P2 00 (PICC parameter), FF 00 40 P2 04 + 4 octets (LED / buzzer): the length byte must agree with the octets that follow (ACR122U API v2.0x)",
    "C13 RF status clause: the status byte of InCommunicateThru, TgGetInitiatorCommand, TgResponseToInitiator and TgSetData is an error code as a whole (00h = success); only InDataExchange and TgGetData carry the NAD (bit 7) and MI (bit 6) flags in front of a six bit error code (PN532 UM 7.1); with an error status the octets behind the status byte are chip buffer content, not data received from the other side",
    "C14 on-air clause: a Type 1 Tag command frame is the command code with its operands and UID echo (7 octets; 14 for READ8/WRITE-E8/WRITE-NE8) followed by the CRC_B of exactly those octets; no tag answers anything else; the command the caller wants on air is what the buffer held when the caller built it (before the first exchange() with that object)",
]

DRIVERS = ["pn531", "pn532", "pn533", "rcs956", "acr122", "arygonA", "arygonB", "pn532rt"]
VARIANT = {"pn531": "pn531", "pn532": "pn532", "pn533": "pn533", "rcs956": "rcs956", "acr122": "pn532",
           "arygonA": "pn531", "arygonB": "pn532", "pn532rt": "pn532"}

_PN531 = ["t2t", "t4a", "212f", "424f", "dep106", "dep424", "l-tt2", "l-tt4", "l-tt3", "l-dep106", "l-dep424"]
_PN532 = _PN531 + ["t1t", "t1t-read8", "106b"]
SUPPORT = {
    "pn531": _PN531, "arygonA": _PN531, "pn532": _PN532, "arygonB": _PN532, "pn533": _PN532, "pn532rt": _PN532,
    "rcs956": ["t2t", "t4a", "t1t", "106b", "212f", "424f", "dep106", "dep424", "l-tt2", "l-dep106", "l-dep424"],
    "acr122": ["t2t", "t4a", "106b", "212f", "424f", "dep106", "dep424"],
}

RULE_C13 = ("cell = (driver in pn531/pn532/pn533/rcs956/acr122/arygonA/arygonB/pn532rt[real transport.TTY over a simulated serial port]) x (target kind entered through the real "
            "sense/listen: T2T, T4A, T1T (RALL and CIU READ8), 106B, 212F, 424F, DEP initiator 106/424, listen tt2/tt4/tt3/DEP "
            "106/424 as far as supported) x (k = 1..n over every host command of the reference exchange) x (all 256 status "
            "bytes where the command has a status field + every host-link fault of the link type, including the response "
            "frame / CCID message cut to every length 1..len-1, the ACK frame cut to 1..5 octets (frame links) and the "
            "pseudo-APDU inside a well formed CCID message cut to 0..len-1 octets (ACR122), and a well formed response "
            "with 1/2/5 surplus payload octets); the transport-level faults (write raises EIO/ENODEV/[serial: no errno]; "
            "the read for the ACK raises ETIMEDOUT/EIO/ENODEV/[no errno]; the read for the response raises a hard error) "
            "must surface as IOError and nothing else, at every k including the RF command, as initiator and as target; "
            "the same transport-level faults and the surplus responses are also injected at every host command of the "
            "real clf.sense()/clf.listen() that enters the target kind; distinct by "
            "(stage, driver, kind, k, action); non-trivial if the scripted action was actually delivered by the simulator; "
            "RF status clause: at every command of the exchange that hands RF data to or fetches it from the chip "
            "(InCommunicateThru, InDataExchange, TgGetInitiatorCommand, TgResponseToInitiator) all 256 status values "
            "bare + status values followed by the regular response's octets (quick: flag-bit-only 40h/80h/C0h, single "
            "bits, documented error codes, field borders; thorough: all 255): 00h -> exactly the reference data, error "
            "status -> never data; status class clause: for each of these 256 values which documented error it becomes "
            "(initiator: error code 01h -> TimeoutError, any other -> TransmissionError; target: RC-S956 31h (RF-off) -> "
            "BrokenLinkError exactly at TgResponseToInitiator and TgGetInitiatorCommand, 0Ah/29h/31h elsewhere -> any "
            "CommunicationError subclass, 01h -> TimeoutError or TransmissionError, any other -> TransmissionError), "
            "chip silent after the ACK at every host command: RF command -> TimeoutError, ReadRegister/WriteRegister/"
            "RFConfiguration/TgResponseToInitiator -> outcome observed, not judged beyond the coarse clause; data fidelity: every outcome that is data (reference, under "
            "any action, in the follow-up exchange) compared with what the chip handed over for the RF command / with the "
            "reference when all answers were the same; target role time-out argument 0 and None x with data / receive-only "
            "+ a regular exchange after it; two-fault schedules (silence at host command k + failing cancel-ACK write for "
            "every write fault; status 01h/13h/0Ah/29h or silence at the RF command + every hard transport fault at the "
            "first host command of the next exchange); "
            "concrete type clause: the exception type is one of the documented public classes itself (not a driver-internal "
            "subclass of one), for every action at every host command, "
            "and transport exceptions after the ACK with errno 1/10/41/49 (numerically special-cased status codes) -> IOError; "
            "well formed envelopes (frame with right checksums / CCID message with right dwLength) with short or misordered "
            "content - frame links 40 data fields of 0..5 octets, ACR122U every pseudo-APDU response of 0..4 octets over "
            "the tokens {D5, RC, 9000, 6300, xx} plus head x middle x status-word combinations up to 6 octets (thorough: "
            "all token strings up to 6) - at every host command of exchange() (quick: first variant of a kind; the full set "
            "for one kind per driver code path, the others and later occurrences of a command code within one "
            "sense()/listen() get the contents without status/count octets) and of sense()/listen(): coarse clause")
RULE_C14 = ("command side: every command code of each chipset table x payload lengths (quick: 0..6, 250..270, max-2..max, "
            "random; thorough: every length) x random contents (one in four with a start code / ACK / NACK pattern inside), "
            "frame validated (data field <= 265, PN531 255) and compared with the payload; operation: init, sense/listen "
            "into every supported kind, exchange, exchange with a silent chip (cancel ACK), exchange, close - every frame "
            "and ACR122U reader command written is validated; response "
            "side: valid responses of many lengths (InCommunicateThru, ReadRegister; short ones for eight more response "
            "codes) x every single-bit flip, every truncation, extensions, missing / doubled leading octets, sum-preserving "
            "adjacent byte pairs, random 1-4 byte substitutions, ACK mutations; every structural octet of a normal and an "
            "extended frame (ACR122U: of the CCID header and the pseudo-APDU) x all 255 other values, bare and with LCS / "
            "DCS recomputed (exactly one validator clause fails); the same compensated sweep and all other classes on the "
            "read-only path command(code, None, t); ACK + response in one transfer; CRC: all messages <= 2 bytes (3 thorough) + "
            "random, all single-bit corruptions, driver-side T2T/T1T CRC checks; Type 2 Tag platform targets found by the "
            "real sense() for all 64 SEL_RES values with (SEL_RES & 60h) == 0 and six ISO-DEP/NFC-DEP ones (thorough: all "
            "256) x intact / bit-flipped (all bits for 00h and 8 named values, 20 sampled otherwise) / substituted on-air "
            "answers against a CIU model that checks CRC_A exactly when RxCRCEn is set; distinct by the bytes of the case; "
            "on-air frames: (driver x initiator target kind x command variant incl. T1T READ8/WRITE-E8/WRITE-NE8/RSEG on "
            "the software CRC_B path) x attempt schedules (mute|badcrc|host-link fault|success, then the same bytearray "
            "object again, up to 3 attempts) through clf.exchange() and nfc.tag.tt1 read_block/write_block/read_segment "
            "retry loops; every frame handed to the chip for transmission compared with command || reference CRC")
FRAME_DRIVERS = [d for d in DRIVERS if d != "acr122"]           # ACK phase exists; listen is supported
REQUIRED_C13 = (["%s_c13_exchanges" % d for d in DRIVERS] + ["%s_c13_cells" % d for d in DRIVERS] +
                ["%s_c13_truncations_delivered" % d for d in DRIVERS] + ["pn53x_sim_selftest_frames"] +
                ["%s_c13_surplus_delivered" % d for d in DRIVERS] +
                ["%s_c13_hostlink_write_at_rf_command" % d for d in DRIVERS] +
                ["%s_c13_hostlink_rsp_checked" % d for d in DRIVERS] +
                ["%s_c13_hostlink_sense_checked" % d for d in DRIVERS] +
                ["%s_c13_hostlink_ack_at_rf_command" % d for d in FRAME_DRIVERS] +
                ["%s_c13_hostlink_as_target_checked" % d for d in FRAME_DRIVERS] +
                ["%s_c13_hostlink_listen_checked" % d for d in FRAME_DRIVERS] +
                ["%s_c13_rf_status_with_payload_checked" % d for d in DRIVERS] +
                ["%s_c13_error_status_never_data_checked" % d for d in DRIVERS] +
                ["%s_c13_error_status_flag_bits_only_checked" % d for d in DRIVERS] +
                ["%s_c13_status00_data_checked" % d for d in DRIVERS] +
                ["pn53x_c13_rf_status_sweep_%s" % c for c in ("InCommunicateThru", "InDataExchange", "TgGetInitiatorCommand",
                                                               "TgResponseToInitiator")] +
                # which documented class an error status becomes, all values, both roles; status octets / errnos that
                # are numerically equal to a value of the other number space
                ["%s_c13_status_class_checked" % d for d in DRIVERS] +
                ["%s_c13_status_class_ini_only_transmission_checked" % d for d in DRIVERS] +
                ["%s_c13_status_class_tgt_only_transmission_checked" % d for d in FRAME_DRIVERS] +
                ["%s_c13_status_errno_collision_checked" % d for d in DRIVERS] +
                ["%s_c13_hostlink_errno_collision_checked" % d for d in DRIVERS] +
                ["%s_c13_hostlink_errno_collision_at_rf_command" % d for d in DRIVERS] +
                ["pn53x_c13_status_class_sweep_%s" % c for c in ("InCommunicateThru", "InDataExchange", "TgGetInitiatorCommand",
                                                                  "TgResponseToInitiator")] +
                # field loss as BrokenLinkError exactly, at both host commands of a target role exchange and in every
                # listen kind that uses them; concrete type of whatever exchange() raised
                ["rcs956_c13_released_status_exact_checked"] +
                ["%s_c13_released_status_tolerated_checked" % d for d in FRAME_DRIVERS] +
                ["pn53x_c13_released_status_exact_%s" % c for c in ("TgGetInitiatorCommand", "TgResponseToInitiator")] +
                ["pn53x_c13_released_status_exact_%s_%s" % (c, k) for c in ("TgGetInitiatorCommand", "TgResponseToInitiator")
                 for k in ("l_tt2", "l_dep106", "l_dep424")] +
                # data fidelity: whatever exchange() returns as data is what the other side sent, also next to a fault
                ["%s_c13_data_fidelity_under_fault_checked" % d for d in DRIVERS] +
                ["%s_c13_data_fidelity_by_rf_answer" % d for d in DRIVERS] +
                ["%s_c13_data_fidelity_by_identical_answers" % d for d in FRAME_DRIVERS if "l-tt3" in SUPPORT[d]] +
                # a chip that falls silent at a host command that does not wait for RF; time-out argument 0 / None as
                # target; two faults in a row; extended command frames inside exchange()
                ["%s_c13_silent_chip_observed" % d for d in DRIVERS] +
                ["%s_c13_silent_chip_as_target_observed" % d for d in FRAME_DRIVERS] +
                ["%s_c13_timeout_%s_checked" % (d, c) for d in FRAME_DRIVERS for c in ("zero", "none", "recv_only", "followup")] +
                ["%s_c13_twofault_cancel_write_checked" % d for d in FRAME_DRIVERS] +
                ["%s_c13_twofault_next_exchange_checked" % d for d in DRIVERS] +
                ["%s_c13_frames_extended" % d for d in DRIVERS if VARIANT[d] != "pn531" and d != "acr122"] +
                ["%s_c13_concrete_type_checked" % d for d in DRIVERS] +
                ["%s_c13_concrete_type_tgt_checked" % d for d in FRAME_DRIVERS] +
                ["%s_c13_concrete_type_at_response_checked" % d for d in FRAME_DRIVERS] +
                # well formed envelopes with short / misordered content
                ["%s_c13_wellformed_payload_exchange_checked" % d for d in DRIVERS] +
                ["%s_c13_wellformed_payload_sense_checked" % d for d in DRIVERS] +
                ["%s_c13_wellformed_payload_listen_checked" % d for d in FRAME_DRIVERS] +
                ["%s_c13_wellformed_%s_checked" % (d, c) for d in FRAME_DRIVERS for c in ("empty", "tfi_only", "short")] +
                ["acr122_c13_apdu_%s_%s_checked" % (c, st) for c in ("short_sw9000", "short_sw_error", "short_no_sw",
                                                                     "misordered_sw9000", "misordered_sw_error",
                                                                     "misordered_no_sw", "valid_envelope")
                 for st in ("exchange", "sense")])
ISOLATED_FRAME = ["preamble", "startcode", "lcs", "len_mismatch", "tfi", "code", "dcs", "postamble"]
ISOLATED_CCID = ["ccid_type", "ccid_dwLength", "tfi", "code", "sw"]
EXT_DRIVERS = [d for d in DRIVERS if VARIANT[d] != "pn531" and d != "acr122"]      # extended frames exist on the link
CIU_T1T_DRIVERS = [d for d in DRIVERS if "t1t-read8" in SUPPORT[d] and d != "rcs956"]
REQUIRED_C14 = (["%s_frames_validated" % d for d in DRIVERS] + ["%s_responses_mutated" % d for d in DRIVERS] +
                ["%s_t2t_crc_cases" % d for d in DRIVERS] + ["pn53x_crc_cases", "pn53x_crc_bitflips", "pn53x_sim_selftest_frames"] +
                ["%s_t2t_selres_tt2_nonzero_cells" % d for d in DRIVERS] +
                ["%s_t2t_selres_tt2_nonzero_crc_cases" % d for d in DRIVERS] +
                ["%s_t2t_selres_iso_or_dep_crc_cases" % d for d in DRIVERS] +
                ["%s_retx_same_buffer_frames" % d for d in DRIVERS] +
                ["%s_retx_same_buffer_sw_crc_b_frames" % d for d in DRIVERS if "t1t-read8" in SUPPORT[d]] +
                ["pn53x_tt1_retry_loop_retransmissions"] +
                # both frame formats on both sides, every class of mutation, the Type 1 Tag software CRC_B path
                ["%s_frames_extended" % d for d in EXT_DRIVERS] + ["%s_responses_extended" % d for d in EXT_DRIVERS] +
                ["%s_responses_extended_mutated" % d for d in EXT_DRIVERS] +
                ["%s_frames_payload_with_start_code" % d for d in DRIVERS] +
                ["%s_mut_%s" % (d, c) for d in DRIVERS for c in ("bitflip", "truncate", "extend", "prepend", "behead",
                                                                 "pair_sum", "substitute", "struct_bare")] +
                ["%s_mut_struct_comp" % d for d in FRAME_DRIVERS] + ["%s_ack_mutated" % d for d in FRAME_DRIVERS] +
                ["%s_t1t_crc_cases" % d for d in CIU_T1T_DRIVERS] +
                # a response that breaks exactly one clause of the validator is refused, clause by clause
                ["%s_mut_only_%s_rejected" % (d, c) for d in FRAME_DRIVERS for c in ISOLATED_FRAME] +
                ["acr122_mut_only_%s_rejected" % c for c in ISOLATED_CCID] +
                ["%s_struct_sweep_extended_bases" % d for d in EXT_DRIVERS] +
                ["%s_mut_other_response_codes" % d for d in DRIVERS] +
                ["%s_readonly_bases" % d for d in FRAME_DRIVERS] + ["%s_mut_readonly_struct_comp" % d for d in FRAME_DRIVERS] +
                ["%s_mut_glued_valid" % d for d in FRAME_DRIVERS] + ["%s_mut_glued_bitflip" % d for d in FRAME_DRIVERS] +
                # frames written while the driver is operated: ACK (cancel) frames, reader commands of the ACR122U
                ["%s_op_frames_validated" % d for d in DRIVERS] + ["%s_op_acks_validated" % d for d in DRIVERS] +
                ["%s_op_cancel_acks" % d for d in FRAME_DRIVERS] + ["%s_sim_accepted_ack" % d for d in FRAME_DRIVERS] +
                ["%s_op_frames_extended" % d for d in EXT_DRIVERS] +
                ["acr122_op_reader_apdu_%s_validated" % c for c in ("led", "picc", "version")])


# ---------------------------------------------------------------------------------------------------------
def H(s):
    return bytearray.fromhex(s)


def selftests(R):
    """simulator / reference conformance self-test; False (and inconclusive) when the trusted base disagrees with
    the manuals' examples or the repository's transcripts"""
    from vf.sim.chipsets import pn53x as S
    try:
        R.count("pn53x_ref_crc_selftest", refcrc.selftest())
        R.count("pn53x_ref_frames_selftest", F.selftest())
        R.count("pn53x_sim_selftest_frames", S.selftest())
        return True
    except AssertionError as e:
        R.inconc("pn53x simulator/reference self-test failed: %r" % (e,))
        return False


def copy_target(t):
    if t is None:
        return None
    n = type(t)(t.brty)
    for k, v in t.__dict__.items():
        n.__dict__[k] = bytearray(v) if isinstance(v, (bytes, bytearray)) else v
    return n


# kind -> (role, field kind, [(variant label, exchange data, timeout), ...]); the first variant is the quick one
def kind_info(kind, variant=0):
    idm = "0102030405060708"
    big = bytes(range(256)) * 2
    table = {
        "t2t": ("ini", "t2t", [("read", H("3004"), 0.1), ("write-ack", H("A2050a0b0c0d"), 0.1), ("read-1ms", H("3000"), 0.001),
                               ("read-5s", H("3000"), 5.0)]),
        "t4a": ("ini", "t4a", [("select", H("0200A4040007D276000085010100"), 0.1), ("big", H("0300B00000") + big[:247], 0.1),
                               ("rats", H("E080"), 0.03)]),
        "t1t": ("ini", "t1t", [("rall", H("000000b2565400"), 0.1), ("read", H("010800b2565400"), 0.1),
                               ("write-e", H("530855b2565400"), 0.1)]),
        "t1t-read8": ("ini", "t1t", [("read8", H("02030000000000000000b2565400"), 0.1),
                                     ("write-e8", H("5405a0a1a2a3a4a5a6a7b2565400"), 0.1),
                                     ("write-ne8", H("1b060102040810204080b2565400"), 0.1)]),
        "106b": ("ini", "106b", [("select", H("0200A4040007D276000085010100"), 0.1), ("big", H("0300B00000") + big[:247], 0.1)]),
        "212f": ("ini", "212f", [("read", H("1006" + idm + "010b00018000"), 0.1), ("read-1s", H("1006" + idm + "010b00018000"), 1.0)]),
        "424f": ("ini", "424f", [("read", H("1006" + idm + "010b00018000"), 0.1)]),
        "dep106": ("ini", "dep", [("inf", H("F008D40600") + b"abc", 0.1), ("big", H("F0F0D40600") + big[:235], 0.5)]),
        "dep424": ("ini", "dep", [("inf", H("08D40600") + b"abcd", 0.1), ("big", H("FAD40600") + big[:246], 0.5)]),
        "l-tt2": ("tgt", "rdr-tt2", [("read-rsp", H("000102030405060708090a0b0c0d0e0f"), 0.5), ("recv-only", None, 0.5),
                                      ("ack", H("0a"), 0.05)]),
        "l-tt4": ("tgt", "rdr-tt4", [("sw", H("029000"), 0.5), ("big", H("02") + big[:240], 0.5)]),
        "l-tt3": ("tgt", "rdr-tt3", [("read-rsp", H("1d07" + idm + "0000" "01" "000102030405060708090a0b0c0d0e0f"), 0.5),
                                      ("recv-only", None, 0.5)]),
        "l-dep106": ("tgt", "ini-dep106", [("inf", H("F007D5070031"), 0.5), ("big", H("F0F0D50700") + big[:235], 0.5)]),
        "l-dep424": ("tgt", "ini-dep424", [("inf", H("06D5070031"), 0.5), ("recv-only", None, 0.5)]),
    }
    role, fkind, variants = table[kind]
    if variant == "all":
        return role, fkind, variants
    label, data, tmo = variants[variant]
    return role, fkind, data, tmo


def n_variants(kind):
    return len(kind_info(kind, "all")[2])


def prepare(driver, kind, R, prop, field_opts=None):
    """-> (clf, sim, role, enter): the real driver initialised on the simulator, the field holding the requested
    target kind; enter() calls the real clf.sense()/clf.listen() and returns what it returned.
    "init-failed" if the driver could not be initialised"""
    import nfc.clf
    from vf.sim.chipsets import pn53x as S
    made = safe_make(R, driver, prop)
    if made is None:
        return "init-failed"
    clf, dev, sim, tr = made
    role, fkind, data, tmo = kind_info(kind)
    sim.st.field = S.Field(fkind, big_rsp=240 if VARIANT[driver] == "pn531" or driver == "acr122" else 258,
                           **(field_opts or {}))
    atr_req = H("D400" "30313233343536373839" "00000032" "46666d010113")
    if role == "ini":
        if kind in ("t2t", "t4a", "t1t", "t1t-read8"):
            tg = nfc.clf.RemoteTarget("106A")
        elif kind == "106b":
            tg = nfc.clf.RemoteTarget("106B")
        elif kind in ("212f", "424f"):
            tg = nfc.clf.RemoteTarget(kind.upper())
        elif kind == "dep106":
            tg = nfc.clf.RemoteTarget("106A", atr_req=atr_req)
        else:
            tg = nfc.clf.RemoteTarget("424F", atr_req=atr_req)

        def enter():
            return clf.sense(copy_target(tg))
    else:
        if kind == "l-tt2":
            tg = nfc.clf.LocalTarget("106A", sens_res=H("4400"), sdd_res=H("08010203"), sel_res=H("00"))
        elif kind == "l-tt4":
            tg = nfc.clf.LocalTarget("106A", sens_res=H("4400"), sdd_res=H("08010203"), sel_res=H("20"))
        elif kind == "l-tt3":
            tg = nfc.clf.LocalTarget("212F", sensf_res=H("01 0102030405060708 FFFFFFFFFFFFFFFF 12FC"))
        else:
            tg = nfc.clf.LocalTarget("106A", sens_res=H("0101"), sdd_res=H("08010203"), sel_res=H("40"))
            tg.sensf_res = H("01 01fe010203040506 0000000000000000 0000")
            tg.atr_res = H("D501 d0d1d2d3d4d5d6d7d8d9 0000000800")

        def enter():
            return clf.listen(copy_target(tg), 1.0)
    return clf, sim, role, enter


def activate(driver, kind, R, prop, field_opts=None):
    """-> (clf, sim, role) with the real driver in the requested target kind, simulator marked; None if the
    driver could not be brought there"""
    import nfc.clf
    prep = prepare(driver, kind, R, prop, field_opts)
    if prep == "init-failed":
        return prep
    clf, sim, role, enter = prep
    try:
        found = enter()
    except nfc.clf.UnsupportedTargetError:
        found = None
    if found is None:
        return None
    sim.mark()
    return clf, sim, role


class Cell(object):
    """one (driver, kind): activated once, then restored before every trial"""
    def __init__(self, driver, kind, variant=0, R=None, prop="c13", field_opts=None):
        self.driver, self.kind, self.variant = driver, kind, variant
        self.role, self.fkind, self.data, self.tmo = kind_info(kind, variant)
        self.rf_cmd_k = None
        self.first_read_k = None
        self.ref_data = None              # what the undisturbed reference exchange returned
        self.ref_seq = None               # [(host command, payload of its valid answer)] of the reference exchange
        self.rsplog = {}                  # k -> (octets of the regular response transfer, of its header)
        a = activate(driver, kind, R, prop, field_opts)
        self.init_failed = a == "init-failed"
        self.ok = a is not None and not self.init_failed
        if not self.ok:
            return
        self.clf, self.sim, _ = a
        if prop == "c14":
            self.sim.command_bound = 10 ** 9
        self.snap = self.sim.snapshot()
        self.target0 = copy_target(self.clf.target)
        self.t0 = self.sim.clock.now

    def reset(self):
        self.sim.restore(self.snap)
        self.sim.script = {}
        self.sim.clock.now = self.t0
        self.clf.target = copy_target(self.target0)

    def exchange(self, script):
        """-> (outcome tuple, exception or None, returned value or None)"""
        import nfc.clf
        from vf.sim.chipsets import pn53x as S
        self.sim.script = script
        try:
            r = self.clf.exchange(bytearray(self.data) if self.data is not None else None, self.tmo)
        except nfc.clf.CommunicationError as e:
            return ("comm", type(e).__name__), e, None
        except OSError as e:
            return ("ioerror", e.errno), e, None
        except S.SimBound as e:
            return ("bound",), e, None
        except BaseException as e:            # noqa: everything else is what the property forbids
            return ("escape", type(e).__name__), e, None
        if r is None:
            return ("none",), None, None
        if isinstance(r, (bytes, bytearray)):
            return ("data",), None, bytes(r)
        return ("badtype", type(r).__name__), None, r


def actions_for(sim, cmd, link, tier, role, kind, rsp=None, variant=0):
    """rsp = (octets of the regular response transfer of this host command, of its header) from the reference run"""
    from vf.sim.chipsets import pn53x as S
    acts = []
    if sim.has_status(cmd):
        acts += [["status", s] for s in range(1, 256)]
        acts += [["status", 0]]
        # the same status values with octets behind the status byte (the chip's buffer content): every value at the
        # commands that deliver / fetch RF data in the thorough tier, a structured subset otherwise
        if cmd in RF_DELIVERY_CMDS and tier != "quick":
            vals = range(1, 256)
        elif cmd in RF_DELIVERY_CMDS:
            vals = STATUS_STRUCTURED
        else:
            vals = STATUS_FLAGS_ONLY if tier == "quick" else STATUS_STRUCTURED
        acts += [["status+data", s] for s in vals]
    acts += [["fault", f] for f in S.faults_for(link)]
    if rsp is not None:
        acts += S.len_actions(link, rsp)
        # well formed envelopes with short / misordered content: the envelope does not depend on what the exchange
        # carries, so the first command variant of a kind is enough in the quick tier
        if tier != "quick":
            acts += S.payload_actions(link, cmd, "all" if link == "ccid" else "full")
        elif variant == 0:
            acts += S.payload_actions(link, cmd, "full" if kind in PAYLOAD_FULL_KINDS else "core")
    if kind == "l-tt3":
        acts.append(["rfoff"])
    return acts


def where_of(action, link=None, rsp=None, cmd=None):
    if action[0] in ("status", "status+data"):
        return "rf-status"
    if action[0] == "rfoff":
        return "rf-off"
    if len(action) > 2 and action[1] == "payload":
        from vf.sim.chipsets import pn53x as S
        return S.payload_class(link, cmd if cmd is not None else 0, action[2])
    if len(action) > 2:
        from vf.sim.chipsets import pn53x as S
        return S.cut_region(link, action[1], int(action[2]), rsp)
    return action[1]


# quick tier: one target kind per driver code path gets the full set of well formed short / misordered contents (Type 2
# Tag path, plain InCommunicateThru, InDataExchange, CIU octet-wise Type 1 Tag path, Tg* commands, CIU FeliCa listen);
# the other kinds run the same host commands through the same code and get the envelope-only core set
PAYLOAD_FULL_KINDS = {"t2t", "t4a", "t1t", "t1t-read8", "l-tt2", "l-tt3"}
RF_DELIVERY_CMDS = {0x40, 0x42, 0x86, 0x88, 0x8E, 0x90}      # the commands that hand RF data to / fetch it from the chip
# host commands of an exchange that the chip answers without waiting for the other side: ReadRegister, WriteRegister,
# RFConfiguration, TgResponseToInitiator / TgSetData / TgSetMetaData (the chip transmits and reports the result)
NO_RF_WAIT_CMDS = {0x06, 0x08, 0x32, 0x90, 0x8E, 0x94}
FLAGGED_STATUS_CMDS = {0x40, 0x86}       # InDataExchange / TgGetData: status = NAD (b7) | MI (b6) | error code (b5..0)
# status values sent with octets behind them in the quick tier: flag bits only (low six bits zero), every single
# bit, the documented error codes of the PN532/PN533 error table, the borders of the six bit error code field
STATUS_FLAGS_ONLY = [0x40, 0x80, 0xC0]
STATUS_STRUCTURED = sorted(set(STATUS_FLAGS_ONLY + [1 << i for i in range(8)] + [
    0x01, 0x02, 0x03, 0x04, 0x05, 0x06, 0x07, 0x09, 0x0A, 0x0B, 0x0D, 0x0E, 0x10, 0x12, 0x13, 0x14, 0x23, 0x25, 0x26,
    0x27, 0x29, 0x2A, 0x2B, 0x2C, 0x2D, 0x2E, 0x31, 0x3F, 0x41, 0x7F, 0x81, 0xBF, 0xC1, 0xFE, 0xFF,
    0x6E]))                 # 6Eh = 110 = errno.ETIMEDOUT (05h = EIO and 13h = ENODEV are in the error table anyway)


def error_status(cmd, s):
    """True if status byte s of RF exchange command cmd reports an error (no valid RF data): the whole byte for
    InCommunicateThru / TgGetInitiatorCommand / TgResponseToInitiator / TgSetData, the six bit error code for
    InDataExchange / TgGetData whose bits 7 and 6 are the NAD and MI flags"""
    return bool(s & 0x3F) if cmd in FLAGGED_STATUS_CMDS else bool(s & 0xFF)


def count_payload(R, drv, link, where, stage, out):
    """coverage of the well formed envelopes with short / misordered content (judged by the coarse clause: IOError
    or a documented CommunicationError or - where the envelope is valid - whatever the content means)"""
    R.count("%s_c13_wellformed_payload_%s_checked" % (drv, stage))
    R.seen("pn53x_c13_wellformed_payload_outcomes", "%s/%s/%s/%s" % (drv, stage, where, ":".join(str(x) for x in out[:2])))
    if link == "ccid":
        cls = where.split(":", 1)[1].replace("-", "_")
        R.count("%s_c13_apdu_%s_%s_checked" % (drv, cls, stage))
    else:
        R.count("%s_c13_%s_checked" % (drv, where.split(":", 1)[1].replace("-", "_")))


def comm_class(exc):
    """which of the documented nfc.clf.CommunicationError kinds an exception is (by isinstance, so that a driver
    internal subclass such as pn53x.Chipset.Error counts as what it derives from)"""
    import nfc.clf
    for cls in (nfc.clf.TimeoutError, nfc.clf.BrokenLinkError, nfc.clf.TransmissionError, nfc.clf.ProtocolError):
        if isinstance(exc, cls):
            return cls.__name__
    return "CommunicationError" if isinstance(exc, nfc.clf.CommunicationError) else type(exc).__name__


RELEASED_CODES = (0x0A, 0x29, 0x31)     # pn53x.Device.send_rsp_recv_cmd: "RF field not switched on in time", "released
#                                         by the initiator", RC-S956 "RF off": what the drivers report as BrokenLinkError
# (driver, status code) pairs where chipset manual and property statement together leave one answer ("field loss as
# BrokenLinkError"): the RC-S956 documents 31h as "Initiator RF-OFF state detected while operating as Target" - the
# external field is gone - at whichever of the two host commands of a target role exchange the chip reports it.
# Not in the table (any nfc.clf.CommunicationError subclass is accepted there): 31h on PN531/PN532/PN533, whose manuals
# do not define the code; 0Ah "RF field not activated in time by active mode peer" (as much a time-out as a missing
# field); 29h "released by the initiator" (the end of the session at protocol level: neither time-out nor field loss nor
# an RF error in the statement's terms).  An earlier version demanded BrokenLinkError for all three codes on all seven
# listen-capable drivers; that table had been read off the unchanged tree, not off the manuals.
RELEASED_EXACT = {("rcs956", 0x31)}
ANY_COMM_CLASS = {"TimeoutError", "BrokenLinkError", "TransmissionError", "ProtocolError", "CommunicationError"}
# further codes whose manual text describes the other side being absent / having left rather than a transmission error:
# any CommunicationError subclass is accepted.  Initiator: 0Ah "RF field not activated in time by active mode peer", 2Bh
# (PN532/PN533) "ISO/IEC14443-3B, card previously activated has disappeared"; target: 2Fh (RC-S956) "Already deselected by
# the initiator in operation as DEPTarget"
INI_ABSENT_CODES = (0x0A, 0x2B)
TGT_LEFT_CODES = RELEASED_CODES + (0x2F,)


def expected_status_classes(role, cmd, s, drv=None):
    """-> (clause label, set of documented classes) for error status s of RF command cmd, None if not judged.
    Initiator (InCommunicateThru / InDataExchange): error code 01h is the chip's time-out ("Time out, the Target has not
    answered" in all four manuals) -> TimeoutError, every other error code -> TransmissionError.  Target
    (TgGetInitiatorCommand / TgResponseToInitiator): 31h on the RC-S956 (RELEASED_EXACT) is field loss ->
    BrokenLinkError exactly; 0Ah / 29h / 31h elsewhere -> any CommunicationError subclass; 01h is not a target side code
    in the manuals (TimeoutError and TransmissionError both accepted); every other code -> TransmissionError."""
    code = s & 0x3F if cmd in FLAGGED_STATUS_CMDS else s & 0xFF
    if code == 0:
        return None
    if role == "ini" and cmd in (0x40, 0x42):
        if code in INI_ABSENT_CODES:
            return "absent-status-tolerated/ini", set(ANY_COMM_CLASS)
        return ("status01", {"TimeoutError"}) if code == 1 else ("error-status/ini", {"TransmissionError"})
    if role == "tgt" and cmd in (0x88, 0x90):
        if code in TGT_LEFT_CODES:
            if (drv, code) in RELEASED_EXACT:
                return "released-status/tgt", {"BrokenLinkError"}
            return "released-status-tolerated/tgt", set(ANY_COMM_CLASS)
        if code == 1:
            return "status01/tgt", {"TimeoutError", "TransmissionError"}
        return "error-status/tgt", {"TransmissionError"}
    return None


def public_exception_type(exc):
    """True if the concrete type of an exception that left clf.exchange() is one of the documented public classes:
    nfc.clf.CommunicationError and its four documented kinds, nfc.clf.UnsupportedTargetError, or IOError / OSError (the
    builtin class or one of the builtin errno subclasses Python picks by itself for OSError(errno, ...)).  A class
    defined anywhere else (pn53x.Chipset.Error, ...) is driver-internal even when it derives from a documented one."""
    import nfc.clf
    t = type(exc)
    if t in (nfc.clf.CommunicationError, nfc.clf.TimeoutError, nfc.clf.TransmissionError, nfc.clf.ProtocolError,
             nfc.clf.BrokenLinkError, nfc.clf.UnsupportedTargetError):
        return True
    return issubclass(t, OSError) and t.__module__ == "builtins"


def type_name(exc):
    t = type(exc)
    return t.__qualname__ if t.__module__ == "builtins" else "%s.%s" % (t.__module__, t.__qualname__)


def concrete_type_clause(R, cell, k, action, cmd, name, where, tag, exc, case, follow):
    """'Driver-internal exception types never escape': what clf.exchange() raised is judged by its concrete type,
    not by isinstance - at every host command, for every action, for the follow-up exchange too"""
    drv = cell.driver
    if tag not in ("comm", "ioerror") or exc is None:
        return False
    R.count("%s_c13_concrete_type_checked" % drv)
    if cell.role == "tgt":
        R.count("%s_c13_concrete_type_tgt_checked" % drv)
        if cmd == 0x90 and not follow:
            R.count("%s_c13_concrete_type_at_response_checked" % drv)
    R.seen("pn53x_c13_concrete_types", "%s/%s" % (drv, type_name(exc)))
    if public_exception_type(exc):
        return False
    R.violation("%s/internal-type/%s(%s)/%s@%s" % (drv, exc_sig(exc), comm_class(exc), where, name),
                "%s %s: clf.exchange() raised the driver-internal %s (a %s subclass) for %r at host command %d (%s); "
                "documented are nfc.clf.TimeoutError / TransmissionError / ProtocolError / BrokenLinkError and IOError" % (
                    drv, cell.kind, type_name(exc), comm_class(exc), action, k, name), case)
    return True


def hostlink_clause(R, drv, link, role, action, cmd, name, tag, got, case, exc, at_rf=False, stage="exchange", kind=None):
    """the transport itself failed while a host command was delivered (write / ACK phase: the chip never saw or
    never acknowledged it) or raised a hard error instead of the answer: the harness knows that the host link is
    what broke, so the only documented report is IOError - never an RF outcome, never a normal return"""
    from vf.sim.chipsets import pn53x as S
    if action[0] != "fault" or len(action) != 2:
        return False
    phase = S.fault_phase(link, action[1])
    if phase is None:
        return False
    R.count("%s_c13_hostlink_%s_checked" % (drv, phase))
    R.seen("pn53x_c13_hostlink_faults", "%s/%s/%s" % (link, phase, action[1]))
    if at_rf:
        R.count("%s_c13_hostlink_%s_at_rf_command" % (drv, phase))
    if S.errno_collision(action[1]):
        R.count("%s_c13_hostlink_errno_collision_checked" % drv)
        if at_rf:
            R.count("%s_c13_hostlink_errno_collision_at_rf_command" % drv)
    if stage == "exchange" and role == "tgt":
        R.count("%s_c13_hostlink_as_target_checked" % drv)
    if stage != "exchange":
        R.count("%s_c13_hostlink_%s_checked" % (drv, stage))
    if tag == "ioerror":
        return False
    if tag in ("escape", "badtype", "bound"):
        return False                               # judged by the coarse clauses
    R.violation("%s/class/hostlink-%s%s@%s->%s" % (drv, phase, "" if stage == "exchange" else "/%s:%s" % (stage, kind), name, got),
                "%s: the host link failed (%s, %s phase of host command %s, %s) but the driver reported %s instead "
                "of IOError" % (drv, action[1], phase, name, stage, got), case)
    return True


def judge_c13(R, cell, k, action, cmd, out, exc, follow=False, data=None):
    """apply the C13 oracle to one outcome; returns True if a violation was recorded"""
    from vf.sim.chipsets import pn53x as S
    drv = cell.driver
    name = S.NAMES.get(cmd, "%02X" % cmd) if cmd is not None else "?"
    case = {"family": "pn53x_family", "driver": drv, "kind": cell.kind, "variant": cell.variant, "k": k, "action": action, "follow": follow}
    where = where_of(action, cell.sim.link, cell.rsplog.get(k), cmd) + ("+next-exchange" if follow else "")
    tag = out[0]
    if tag == "bound":
        R.inconc("%s/%s: host command bound hit at k=%d %r" % (drv, cell.kind, k, action))
        return False
    if tag == "escape":
        R.violation("%s/escape/%s/%s@%s" % (drv, exc_sig(exc), where, name),
                    "%s %s: clf.exchange() raised %s (%s) for %r at host command %d (%s)" % (
                        drv, cell.kind, type(exc).__name__, str(exc)[:80], action, k, name), case)
        return True
    if tag == "badtype":
        R.violation("%s/return-type/%s/%s@%s" % (drv, out[1], where, name),
                    "%s %s: clf.exchange() returned a %s" % (drv, cell.kind, out[1]), case)
        return True
    if tag == "none" and cell.role == "ini":
        R.violation("%s/return-none/initiator/%s@%s" % (drv, where, name),
                    "%s %s: clf.exchange() returned None while talking to a remote target (%r at %s)" % (
                        drv, cell.kind, action, name), case)
        return True
    internal = concrete_type_clause(R, cell, k, action, cmd, name, where, tag, exc, case, follow)
    if follow:
        return internal
    return finer_clauses(R, cell, k, action, cmd, out, exc, data, name, case, tag) or internal


def finer_clauses(R, cell, k, action, cmd, out, exc, data, name, case, tag):
    from vf.sim.chipsets import pn53x as S
    drv = cell.driver
    variant = VARIANT[drv]
    got = out[1] if tag == "comm" else tag
    last_rf = cell.rf_cmd_k
    if hostlink_clause(R, drv, cell.sim.link, cell.role, action, cmd, name, tag, got, case, exc,
                       at_rf=(cmd in RF_DELIVERY_CMDS)):
        return True
    if action[0] in ("status", "status+data") and cmd in RF_DELIVERY_CMDS:
        # the chip's verdict on the RF exchange: status 00h -> the received data, exactly; an error status -> never
        # "data received" (what follows the status byte is buffer content, not something the other side sent)
        s = action[1] & 0xFF
        behind = "with-payload" if action[0] == "status+data" else "bare"
        R.count("%s_c13_rf_status_%s_checked" % (drv, behind.replace("-", "_")))
        R.count("pn53x_c13_rf_status_sweep_%s" % name)
        R.seen("pn53x_c13_rf_status_cells", "%s/%s/%s/%s" % (drv, cell.kind, name, behind))
        if s == 0:
            R.count("%s_c13_status00_data_checked" % drv)
            if tag != "data" or data != cell.ref_data:
                R.violation("%s/status00/not-the-received-data@%s->%s" % (drv, name, got),
                            "%s %s: status 00h of %s did not come back as the received data (%s)" % (
                                drv, cell.kind, name, got if tag != "data" else "other octets"), case)
                return True
        elif error_status(cmd, s):
            R.count("%s_c13_error_status_never_data_checked" % drv)
            if s & 0x3F == 0:
                R.count("%s_c13_error_status_flag_bits_only_checked" % drv)
            if tag == "data":
                cls = "flag-bits-only" if s & 0x3F == 0 else "error-code"
                R.violation("%s/class/error-status-as-data/%s/%s@%s" % (drv, cls, behind, name),
                            "%s %s: %s answered with error status %02Xh but clf.exchange() returned %d octets as "
                            "received data instead of raising an nfc.clf.CommunicationError" % (
                                drv, cell.kind, name, s, len(data)), case)
                return True
        else:
            R.count("%s_c13_flagged_success_status_seen" % drv)      # InDataExchange/TgGetData 40h/80h/C0h: MI / NAD
    if action[0] in ("status", "status+data") and cmd in RF_DELIVERY_CMDS and tag in ("comm", "ioerror"):
        # which documented error an error status becomes: chipset status octets and OS errno values are different
        # number spaces, so this is asked for every value (6Eh = ETIMEDOUT, 05h = EIO, 13h = ENODEV included)
        exp = expected_status_classes(cell.role, cmd, action[1] & 0xFF, drv)
        if exp is not None:
            label, allowed = exp
            cls = comm_class(exc) if tag == "comm" else "IOError"
            if label == "released-status-tolerated/tgt":
                R.count("%s_c13_released_status_tolerated_checked" % drv)
            if label == "released-status/tgt":
                # field loss as BrokenLinkError, at either host command of the target role exchange
                R.count("%s_c13_released_status_exact_checked" % drv)
                R.count("pn53x_c13_released_status_exact_%s" % name)
                R.count("pn53x_c13_released_status_exact_%s_%s" % (name, cell.kind.replace("-", "_")))
                R.seen("pn53x_c13_released_status_cells", "%s/%s/%s/%s/%02X->%s" % (
                    drv, cell.kind, kind_info(cell.kind, "all")[2][cell.variant][0], name, action[1] & 0xFF, cls))
            R.count("%s_c13_finer_checked" % drv)
            R.count("%s_c13_status_class_checked" % drv)
            R.count("pn53x_c13_status_class_sweep_%s" % name)
            R.seen("pn53x_c13_status_classes", "%s/%s/%s->%s" % (drv, name, label, cls))
            if len(allowed) == 1 and label.startswith("error-status"):
                R.count("%s_c13_status_class_%s_only_transmission_checked" % (drv, cell.role))
            if (action[1] & 0xFF) in S.STATUS_ERRNO_COLLISIONS and label.startswith("error-status"):
                R.count("%s_c13_status_errno_collision_checked" % drv)
            if cls not in allowed:
                if label == "status01":
                    R.violation("%s/class/status01@%s->%s" % (drv, name, got),
                                "%s %s: chip status 01h (time-out) of %s surfaced as %s, not nfc.clf.TimeoutError" % (
                                    drv, cell.kind, name, got), case)
                elif label.startswith("released-status"):
                    R.violation("%s/class/%s@%s->%s" % (drv, label, name, cls),
                                "%s %s: status %02Xh of %s (the initiator released the target / switched its field off) "
                                "surfaced as %s (%s), documented for field loss: %s" % (
                                    drv, cell.kind, action[1] & 0xFF, name, cls, type_name(exc), "/".join(sorted(allowed))), case)
                else:
                    R.violation("%s/class/%s@%s->%s" % (drv, label, name, cls),
                                "%s %s: error status %02Xh of %s (not the time-out code%s) surfaced as %s, documented: %s" % (
                                    drv, cell.kind, action[1] & 0xFF, name,
                                    "" if cell.role == "ini" else ", not a code the driver documents as field loss",
                                    cls, "/".join(sorted(allowed))), case)
                return True
    elif action[0] in ("status", "status+data") and tag == "comm":
        R.seen("pn53x_c13_nonrf_status_classes", "%s/%s->%s" % (drv, name, comm_class(exc)))     # observation only
    if action in (["fault", "ack-silence"], ["fault", "etimedout"]) and cmd in NO_RF_WAIT_CMDS:
        # the chip acknowledged a host command that does not wait for anything on the RF side (register access,
        # RFConfiguration, handing the response to the initiator) and then never answered it: the reader is dead, not
        # the other side silent.  OBSERVATION ONLY (coordinator's decision): the statement allows "a CommunicationError
        # subclass ... or IOError" for whatever the host link does, and a host time-out reported as nfc.clf.TimeoutError
        # is inside that letter (note: findings-proposed/C13-pn53x-silent-chip-as-rf-timeout.md).  The coarse clauses
        # and the concrete type clause have judged the outcome already.
        R.count("%s_c13_silent_chip_observed" % drv)
        if cell.role == "tgt":
            R.count("%s_c13_silent_chip_as_target_observed" % drv)
        R.count("pn53x_c13_silent_chip_%s_%s" % (cell.role, "ioerror" if tag == "ioerror" else "rf_outcome"))
        R.seen("pn53x_c13_silent_chip_outcomes", "%s/%s/%s->%s" % (drv, cell.kind, name, got))
    if action in (["fault", "ack-silence"], ["fault", "etimedout"]) and k == last_rf and cmd in S.RF_WAIT_CMDS:
        # target role: the host's wait for TgGetInitiatorCommand running out IS the time-out of the exchange ("timeout as
        # TimeoutError", exchange() docstring).  Initiator role: the chip has a time-out status of its own (01h), a chip
        # that acknowledges InCommunicateThru / InDataExchange and then stays silent may as well be called a broken host
        # link: TimeoutError and IOError are both inside the letter of the statement
        R.count("%s_c13_finer_checked" % drv)
        if got != "TimeoutError" and not (cell.role == "ini" and tag == "ioerror"):
            R.violation("%s/class/silent-after-ack@%s->%s" % (drv, name, got),
                        "%s %s: no response within the time-out of %s surfaced as %s, not nfc.clf.TimeoutError" % (
                            drv, cell.kind, name, got), case)
            return True
    if action[0] in ("status", "status+data") and cell.role == "tgt" and cmd == 0x88 and (
            action[1] == 0x31 and variant == "rcs956"):
        R.count("%s_c13_finer_checked" % drv)
        if got != "BrokenLinkError":
            R.violation("%s/class/status%02x@%s->%s" % (drv, action[1], name, got),
                        "%s %s: status %02Xh (released / RF off) surfaced as %s, not BrokenLinkError" % (
                            drv, cell.kind, action[1], got), case)
            return True
    if action == ["rfoff"] and cell.first_read_k is not None and k <= cell.first_read_k:
        R.count("%s_c13_finer_checked" % drv)
        if got != "BrokenLinkError":
            R.violation("%s/class/rfoff->%s" % (drv, got),
                        "%s %s: external field lost (CIU RFOffIRq) surfaced as %s, not BrokenLinkError" % (
                            drv, cell.kind, got), case)
            return True
    return False


def delivered_answer(sim, k, cmd):
    """payload (the octets behind the response code) of the first *valid* response to host command cmd among what the
    chip / reader queued for the host as answer to the k-th host command; None if there is none"""
    ccid = sim.link == "ccid"
    for it in sim.delivered.get(k) or ():
        if isinstance(it, tuple) or (not ccid and it == F.ACK):
            continue
        if ccid:
            if not F.acr122_response_clauses(it, cmd):
                return bytes(it)[12:-2]
            continue
        sp = F.split(it, 1)                       # = not F.response_clauses(it, cmd), with one pass over the frame
        d = sp["data"]
        if not sp["clauses"] and sp["kind"] == "info" and len(d) >= 2 and d[0] == F.TFI_CHIP and d[1] == (cmd + 1) & 0xFF:
            return bytes(d[2:])
    return None


def answers_of(sim):
    return [(c, delivered_answer(sim, kk, c)) for (kk, c, _) in sim.cmdlog]


def sent_by_other_side(cell, cmd, payload):
    """what the card / the initiator sent according to the chip's valid answer `payload` (status, octets) to RF command
    cmd; None if the status reports an error"""
    from vf.sim.chipsets import pn53x as S
    if not payload or error_status(cmd, payload[0]):
        return None
    d = bytes(payload[1:])
    if cmd == 0x42 and cell.fkind in ("t2t", "t4a") and not cell.sim.st.regs.get(S.R_RXMODE, 0x80) & 0x80:
        return d[:-2] if len(d) >= 3 else d       # RxCRCEn clear: the CIU hands the CRC_A octets over as well
    return d


def fidelity_clause(R, cell, k, action, cmd, out, data, case, where, name):
    """'exchange() returns the received data': whenever the call returns octets they are what the other side sent in
    this exchange.  Decided from what the simulated chip really handed to the host: (a) the exchange ended with an RF
    command (InCommunicateThru / InDataExchange / TgGetInitiatorCommand) -> the data of its valid answer; (b) the data
    came another way (CIU FIFO through ReadRegister) -> equal to the reference exchange if every host command got the
    same valid answer as there.  True if a violation was recorded"""
    from vf.sim.chipsets import pn53x as S
    if out[0] != "data":
        return False
    drv, sim = cell.driver, cell.sim
    R.count("%s_c13_data_fidelity_checked" % drv)
    if action[0] != "none":
        R.count("%s_c13_data_fidelity_under_fault_checked" % drv)
        R.seen("pn53x_c13_data_under_fault", "%s/%s" % (where, name))
    if sim.cmdlog and sim.cmdlog[-1][1] in S.RF_WAIT_CMDS:
        rf_cmd = sim.cmdlog[-1][1]
        p = delivered_answer(sim, sim.cmdlog[-1][0], rf_cmd)
        rf_name = S.NAMES.get(rf_cmd, "%02X" % rf_cmd)
        R.count("%s_c13_data_fidelity_by_rf_answer" % drv)
        if p is None:
            R.violation("%s/data/returned-without-valid-rf-answer/%s@%s" % (drv, where, name),
                        "%s %s: clf.exchange() returned %d octets although the chip handed over no valid response to %s "
                        "(%r at %s)" % (drv, cell.kind, len(data), rf_name, action, name), case)
            return True
        exp = sent_by_other_side(cell, rf_cmd, p)
        if exp is not None and data != exp:
            R.violation("%s/data/not-what-the-chip-delivered/%s@%s" % (drv, where, name),
                        "%s %s: clf.exchange() returned %d octets, the valid answer of %s carried %d octets from the other "
                        "side%s (%r at %s)" % (drv, cell.kind, len(data), rf_name, len(exp),
                                               "" if len(exp) != len(data) else " with other content", action, name), case)
            return True
        return False
    seq = answers_of(sim)
    if cell.ref_seq is not None and seq == cell.ref_seq and None not in [a for _, a in seq]:
        R.count("%s_c13_data_fidelity_by_identical_answers" % drv)
        if data != cell.ref_data:
            R.violation("%s/data/differs-with-identical-chip-answers/%s@%s" % (drv, where, name),
                        "%s %s: every host command got the same valid answer as in the reference exchange but "
                        "clf.exchange() returned other data (%r at %s)" % (drv, cell.kind, action, name), case)
            return True
    else:
        R.count("%s_c13_data_fidelity_not_judged" % drv)
    return False


def safe_make(R, driver, prop):
    """S.make(driver); a driver that cannot even initialise on the simulator is a C14 violation when the
    simulator rejected a frame it wrote, otherwise inconclusive.  -> (clf, dev, sim, tr) or None"""
    from vf.sim.chipsets import pn53x as S
    try:
        return S.make(driver)
    except Exception as e:         # noqa
        sim = getattr(e, "vf_sim", None)
        if prop == "c14" and sim is not None and sim.bad_writes:
            clause, raw = sim.bad_writes[0]
            R.count("%s_frames_validated" % driver)
            R.violation("%s/host-frame-invalid/%s" % (driver, clause),
                        "%s init(): wrote a host frame the validator rejects (%s): %s" % (driver, clause, bytes(raw)[:40].hex()),
                        {"family": "pn53x_family", "part": "init", "driver": driver})
        else:
            R.inconc("%s: init() on the simulated transport failed: %r%s" % (
                driver, e, " (the simulator rejected a host frame: %s, see C14)" % sim.bad_writes[0][0] if sim is not None and sim.bad_writes else ""))
        return None


def check_bad_writes(R, sim, drv, case, prop="c14"):
    if sim.bad_writes and prop != "c14":
        R.inconc("%s: the simulator rejected a host frame (%s); frame validity is judged by C14" % (drv, sim.bad_writes[0][0]))
        sim.bad_writes = []
        return True
    if sim.bad_writes:
        clause, raw = sim.bad_writes[0]
        R.violation("%s/host-frame-invalid/%s" % (drv, clause),
                    "%s wrote a host frame the validator rejects (%s): %s" % (drv, clause, bytes(raw)[:40].hex()), case)
        sim.bad_writes = []
        return True
    return False


def run_cell_c13(R, driver, kind, tier, rng, only=None, variant=0):
    """only = (k, action, follow) restricts to one trial (replay)"""
    from vf.sim.chipsets import pn53x as S
    cell = Cell(driver, kind, variant, R, "c13")
    vlabel = kind_info(kind, "all")[2][variant][0]
    if not cell.ok:
        if cell.init_failed:
            pass
        elif kind in SUPPORT[driver]:
            R.inconc("%s: could not enter target kind %s through sense/listen" % (driver, kind))
        else:
            R.count("%s_c13_unsupported_kinds" % driver)
        return
    sim = cell.sim
    link = sim.link
    # reference exchange: learn the host commands
    cell.reset()
    out, exc, data = cell.exchange({})
    n = sim.since_mark()
    cmds = [c for (_, c, _) in sim.cmdlog]
    if out[0] != "data" or n < 1 or len(cmds) != n:
        R.inconc("%s/%s: reference exchange did not return data (%r, %r)" % (driver, kind, out, exc))
        return
    cell.reset()
    out2, _, data2 = cell.exchange({})
    if (out2, data2, [c for (_, c, _) in sim.cmdlog]) != (out, data, cmds):
        R.inconc("%s/%s: restore() does not reproduce the reference exchange" % (driver, kind))
        return
    rf = [i + 1 for i, c in enumerate(cmds) if c in S.RF_WAIT_CMDS]
    cell.rf_cmd_k = rf[-1] if rf else None
    cell.first_read_k = (cmds.index(0x06) + 1) if 0x06 in cmds else None
    cell.rsplog = dict(sim.rsplog)
    cell.ref_data = data
    cell.ref_seq = answers_of(sim)
    fidelity_clause(R, cell, 0, ["none"], cmds[-1], out2, data2,
                    {"family": "pn53x_family", "driver": driver, "kind": kind, "variant": variant, "k": -1, "action": ["none"],
                     "follow": False}, "no-fault", S.NAMES.get(cmds[-1], "%02X" % cmds[-1]))
    if sorted(cell.rsplog) != list(range(1, n + 1)):
        R.inconc("%s/%s: the simulator did not log a regular response for every host command of the reference exchange" % (driver, kind))
        return
    R.max("%s_c13_response_octets" % driver, max(v[0] for v in cell.rsplog.values()))
    R.count("%s_c13_cells" % driver)
    R.seen("pn53x_c13_cells", "%s/%s/%s" % (driver, kind, vlabel))
    R.max("%s_host_commands_per_exchange" % driver, n)
    R.seen("pn53x_exchange_command_sequences", "%s/%s/%s: %s" % (driver, kind, vlabel, " ".join(S.NAMES.get(c, "%02X" % c) for c in cmds)))
    R.count("%s_c13_frames_extended" % driver, sim.frames_ok["extended"])
    check_bad_writes(R, sim, driver, None, "c13")
    ks = range(1, n + 1)
    if n > 12 and tier == "quick":               # CIU byte-wise Type 1 Tag path on the PN533: 22 commands
        ks = sorted(set(list(range(1, 8)) + [n - 2, n - 1, n] + rng.sample(range(8, n - 2), 3)))
    for k in ks:
        cmd = cmds[k - 1]
        acts = actions_for(sim, cmd, link, tier, cell.role, kind, cell.rsplog.get(k), variant)
        if only is not None:
            if k != only[0]:
                continue
            acts = [only[1]]
        for action in acts:
            cell.reset()
            out, exc, data = cell.exchange({k: action})
            applied = [a for a in sim.applied if a[0] == k]
            delivered = bool(applied)
            key = (driver, kind, variant, k, action)
            R.case(key, nontrivial=delivered)
            R.count("%s_c13_exchanges" % driver)
            if not delivered:
                R.count("%s_c13_action_not_delivered" % driver)
                continue
            where = where_of(action, link, cell.rsplog.get(k), cmd)
            cls = "%s/%s/%s/%s" % (kind, S.NAMES.get(cmd, cmd), action[0] if action[0].startswith("status") else where, ":".join(str(x) for x in out))
            R.seen("%s_c13_outcomes" % driver, cls)
            if len(action) > 2 and action[1] == "payload":
                count_payload(R, driver, link, where, "exchange", out)
            elif len(action) > 2 and action[1] == "surplus":
                R.count("%s_c13_surplus_delivered" % driver)
                R.seen("pn53x_c13_surplus_outcomes", "%s/%s/%s" % (S.NAMES.get(cmd, cmd), driver, ":".join(str(x) for x in out[:2])))
            elif len(action) > 2:
                R.count("%s_c13_truncations_delivered" % driver)
                R.count("pn53x_c13_%s_%s" % (where.replace(":", "_").replace("-", "_"), out[0]))
            R.count("pn53x_c13_outcome_" + out[0])
            case0 = {"family": "pn53x_family", "driver": driver, "kind": kind, "variant": variant, "k": k, "action": action, "follow": False}
            check_bad_writes(R, sim, driver, case0, "c13")
            bad = judge_c13(R, cell, k, action, cmd, out, exc, data=data)
            if not bad and out[0] == "data":
                bad = fidelity_clause(R, cell, k, action, cmd, out, data, case0, where, S.NAMES.get(cmd, "%02X" % cmd))
            if R.evals % 997 == 0:
                R.sample({"driver": driver, "kind": kind, "k": k, "command": S.NAMES.get(cmd), "action": action,
                          "outcome": list(out)})
            # the exchange after the disturbed one (no script): same coarse oracle
            follow_wanted = (only is None and (action[0] == "fault" or tier != "quick")) or (only is not None and only[2])
            if only is None and tier == "quick" and len(action) > 2 and action[1] == "payload":
                follow_wanted = False         # quick tier: the state after a rejected response is followed up for the
                #                               named faults (garbled-all, wrongcode, nostatus, ...) already
            if follow_wanted and not bad:
                sim.script = {}
                out3, exc3, data3 = cell.exchange({})
                R.count("%s_c13_followup_exchanges" % driver)
                if not judge_c13(R, cell, k, action, cmd, out3, exc3, follow=True) and out3[0] == "data":
                    fidelity_clause(R, cell, k, action, cmd, out3, data3, dict(case0, follow=True), where + "+next-exchange",
                                    S.NAMES.get(cmd, "%02X" % cmd))
    if only is None or only[1][0] == "timeout":
        run_timeouts_c13(R, cell, None if only is None else only[3])
    if (only is None and variant == 0) or (only is not None and only[1][0] == "twofault"):
        run_twofault_c13(R, cell, n, cmds, tier, None if only is None else only[3])


# host-link faults while a target kind is being entered --------------------------------------------------------
ACTIVATION_KINDS = ["t2t", "t4a", "t1t", "106b", "212f", "dep106", "dep424", "l-tt2", "l-tt4", "l-tt3", "l-dep106", "l-dep424"]


def run_activation_c13(R, driver, kind, tier, rng, only=None):
    """clf.sense() / clf.listen() with the k-th host command of the activation disturbed by (a) every host-link
    fault where the transport itself fails (write / ACK / hard read error): the call must raise IOError - finding
    "no target", returning a target or raising an RF error would report a dead reader as an RF outcome; (b) a well
    formed response with surplus payload octets: coarse clause (no foreign exception).
    only = (k, action) restricts to one trial (replay)"""
    import nfc.clf
    from vf.sim.chipsets import pn53x as S
    if kind not in SUPPORT[driver]:
        return
    prep = prepare(driver, kind, R, "c13")
    if prep == "init-failed":
        return
    clf, sim, role, enter = prep
    link = sim.link
    sim.mark()
    snap = sim.snapshot()
    t0 = sim.clock.now

    def attempt(script):
        sim.restore(snap)
        sim.script = script
        sim.clock.now = t0
        clf.target = None
        try:
            r = enter()
        except nfc.clf.CommunicationError as e:
            return ("comm", type(e).__name__), e
        except nfc.clf.UnsupportedTargetError as e:
            return ("unsupported",), e
        except OSError as e:
            return ("ioerror", e.errno), e
        except S.SimBound as e:
            return ("bound",), e
        except BaseException as e:            # noqa
            return ("escape", type(e).__name__), e
        if r is None:
            return ("none",), None
        if isinstance(r, (nfc.clf.RemoteTarget, nfc.clf.LocalTarget)):
            return ("found",), None
        return ("badtype", type(r).__name__), None

    out, exc = attempt({})
    cmds = [c for (_, c, _) in sim.cmdlog]
    n = sim.since_mark()
    rsplog = dict(sim.rsplog)
    if out != ("found",) or n < 1 or len(cmds) != n:
        R.inconc("%s/%s: reference activation did not find the target (%r, %r)" % (driver, kind, out, exc))
        return
    out2, _ = attempt({})
    if (out2, [c for (_, c, _) in sim.cmdlog]) != (out, cmds):
        R.inconc("%s/%s: restore() does not reproduce the reference activation" % (driver, kind))
        return
    R.count("%s_c13_activation_cells" % driver)
    R.max("%s_host_commands_per_activation" % driver, n)
    R.seen("pn53x_activation_command_sequences", "%s/%s: %s" % (driver, kind, " ".join(S.NAMES.get(c, "%02X" % c) for c in cmds)))
    ks = list(range(1, n + 1))
    if only is not None:
        ks = [k for k in ks if k == only[0]]
    elif n > 14 and tier == "quick":
        ks = sorted(set(ks[:8] + ks[-3:] + rng.sample(ks[8:-3], 3)))
    hard = [["fault", f] for f in S.faults_for(link) if S.fault_phase(link, f)]
    for k in ks:
        cmd = cmds[k - 1]
        name = S.NAMES.get(cmd, "%02X" % cmd)
        acts = list(hard)
        if k in rsplog:
            acts += [["fault", "surplus", m] for m in S.SURPLUS_LENGTHS]
            # quick tier: the full set where a command code occurs for the first time in this activation, the
            # envelope-only core set (no status / count octets behind the head) at its later occurrences
            # (the ACR122U differs from the PN532 in Chipset.command() only, what the contents mean to sense() is
            # exercised through the frame links: quick tier core / mini set)
            first = cmd not in cmds[:k - 1]
            if tier != "quick":
                level = "full"
            elif link == "ccid":
                level = "core" if first else "mini"
            else:
                level = "full" if first else "core"
            acts += S.payload_actions(link, cmd, level)
        if only is not None:
            if k != only[0]:
                continue
            acts = [only[1]]
        for action in acts:
            out, exc = attempt({k: action})
            delivered = any(a[0] == k for a in sim.applied)
            R.case(("activation", driver, kind, k, action), nontrivial=delivered)
            R.count("%s_c13_activation_attempts" % driver)
            if not delivered:
                R.count("%s_c13_action_not_delivered" % driver)
                continue
            case = {"family": "pn53x_family", "stage": "activation", "driver": driver, "kind": kind, "k": k, "action": action}
            where = where_of(action, link, rsplog.get(k), cmd)
            R.seen("%s_c13_activation_outcomes" % driver, "%s/%s/%s/%s" % (kind, name, where, ":".join(str(x) for x in out)))
            if len(action) > 2 and action[1] == "payload":
                count_payload(R, driver, link, where, "sense" if role == "ini" else "listen", out)
            elif len(action) > 2:
                R.count("%s_c13_surplus_delivered" % driver)
                R.seen("pn53x_c13_surplus_outcomes", "%s/%s/%s" % (name, driver, ":".join(str(x) for x in out[:2])))
            tag = out[0]
            if tag == "bound":
                R.inconc("%s/%s: host command bound hit during activation at k=%d %r" % (driver, kind, k, action))
                continue
            if tag == "escape":
                R.violation("%s/escape/%s/%s@%s/activation" % (driver, exc_sig(exc), where, name),
                            "%s %s: clf.%s() raised %s (%s) for %r at host command %d (%s)" % (
                                driver, kind, "sense" if role == "ini" else "listen", type(exc).__name__, str(exc)[:80],
                                action, k, name), case)
                continue
            if tag == "badtype":
                R.violation("%s/return-type/%s/%s@%s/activation" % (driver, out[1], where, name),
                            "%s %s: sense/listen returned a %s" % (driver, kind, out[1]), case)
                continue
            got = out[1] if tag == "comm" else tag
            hostlink_clause(R, driver, link, role, action, cmd, name, tag, got, case, exc,
                            at_rf=False, stage="sense" if role == "ini" else "listen", kind=kind)


# the time-out argument of a target role exchange, and two faults in a row ------------------------------------
TIMEOUT_DIM = [("zero", 0, True), ("zero", 0, False), ("none", None, True), ("none", None, False)]


def outcome_of(cell, data, tmo, script):
    """clf.exchange(data, tmo) on the cell as it is (no reset) -> (outcome tuple, exception, returned octets)"""
    saved = cell.data, cell.tmo
    cell.data, cell.tmo = data, tmo
    try:
        return cell.exchange(script)
    finally:
        cell.data, cell.tmo = saved


def coarse_clause(R, cell, out, exc, where, name, what, case):
    """the statement's first sentence for one outcome: octets (None only as a target), a CommunicationError subclass of
    a documented public type, or IOError; True if a violation was recorded"""
    drv = cell.driver
    tag = out[0]
    if tag == "bound":
        R.inconc("%s/%s: host command bound hit (%s)" % (drv, cell.kind, what))
        return True
    if tag == "escape":
        R.violation("%s/escape/%s/%s@%s" % (drv, exc_sig(exc), where, name),
                    "%s %s: clf.exchange() raised %s (%s): %s" % (drv, cell.kind, type(exc).__name__, str(exc)[:80], what), case)
        return True
    if tag == "badtype":
        R.violation("%s/return-type/%s/%s@%s" % (drv, out[1], where, name),
                    "%s %s: clf.exchange() returned a %s: %s" % (drv, cell.kind, out[1], what), case)
        return True
    if tag == "none" and cell.role == "ini":
        R.violation("%s/return-none/initiator/%s@%s" % (drv, where, name),
                    "%s %s: clf.exchange() returned None while talking to a remote target: %s" % (drv, cell.kind, what), case)
        return True
    if tag in ("comm", "ioerror") and exc is not None and not public_exception_type(exc):
        R.violation("%s/internal-type/%s(%s)/%s@%s" % (drv, exc_sig(exc), comm_class(exc), where, name),
                    "%s %s: clf.exchange() raised the driver-internal %s: %s" % (drv, cell.kind, type_name(exc), what), case)
        return True
    return False


def last_command_name(sim):
    from vf.sim.chipsets import pn53x as S
    return S.NAMES.get(sim.cmdlog[-1][1], "%02X" % sim.cmdlog[-1][1]) if sim.cmdlog else "no-host-command"


def run_timeouts_c13(R, cell, only=None):
    """target role: exchange() with time-out 0 (nfc.dep sends its last response that way: do not wait for a command) and
    None (the default of Device.send_rsp_recv_cmd: wait without limit), with response data and receive-only, each
    followed by a regular exchange.  Coarse clause for both calls; octets returned must be what the initiator sent."""
    drv, kind = cell.driver, cell.kind
    if cell.role != "tgt" or not cell.ok:
        return
    for label, tmo, send in TIMEOUT_DIM:
        if only is not None and (only["tmo"], bool(only["send"])) != (label, send):
            continue
        if send and cell.data is None:
            continue
        case = {"family": "pn53x_family", "stage": "timeout", "driver": drv, "kind": kind, "variant": cell.variant,
                "tmo": label, "send": send}
        where = "timeout-%s%s" % (label, "" if send else "+recv-only")
        cell.reset()
        out, exc, data = outcome_of(cell, bytearray(cell.data) if send else None, tmo, {})
        R.case(("timeout", drv, kind, cell.variant, label, send))
        R.count("%s_c13_timeout_%s_checked" % (drv, label))
        if not send:
            R.count("%s_c13_timeout_recv_only_checked" % drv)
        R.seen("pn53x_c13_timeout_outcomes", "%s/%s/%s->%s" % (drv, kind, where, ":".join(str(x) for x in out[:2])))
        name = last_command_name(cell.sim)
        what = "time-out argument %r, %s" % (tmo, "with response data" if send else "receive only")
        if coarse_clause(R, cell, out, exc, where, name, what, case):
            continue
        if fidelity_clause(R, cell, 0, ["timeout", label], None, out, data, case, where, name):
            continue
        # the regular exchange after it
        out2, exc2, data2 = outcome_of(cell, bytearray(cell.data) if cell.data is not None else None, cell.tmo, {})
        R.count("%s_c13_timeout_followup_checked" % drv)
        R.seen("pn53x_c13_timeout_outcomes", "%s/%s/%s+next-exchange->%s" % (drv, kind, where, ":".join(str(x) for x in out2[:2])))
        if coarse_clause(R, cell, out2, exc2, where + "+next-exchange", last_command_name(cell.sim), what + ", then a regular exchange",
                         dict(case, follow=True)):
            continue
        fidelity_clause(R, cell, 0, ["timeout", label], None, out2, data2, dict(case, follow=True), where + "+next-exchange",
                        last_command_name(cell.sim))


TWOFAULT_FIRST = {"ini": [["status", 0x01], ["status", 0x13], ["fault", "ack-silence"]],
                  "tgt": [["status", 0x0A], ["status", 0x29], ["status", 0x13], ["fault", "ack-silence"]]}


def run_twofault_c13(R, cell, n, cmds, tier, only=None):
    """(a) the chip falls silent after the ACK of the k-th host command and the write of the ACK frame with which the
    driver then cancels the command fails too (an error path that does I/O inside an except clause);
    (b) the RF command of one exchange ends with an error status / silence and the transport fails hard at the first
    host command of the next exchange (write, ACK and response phase).
    Coarse clause (nothing foreign, also not as the chained context of what is raised); (b): IOError only."""
    from vf.sim.chipsets import pn53x as S
    drv, kind, sim = cell.driver, cell.kind, cell.sim
    link = sim.link
    wfaults = [f for f in S.faults_for(link) if f.endswith("@write")]
    rf = cell.rf_cmd_k if cell.rf_cmd_k is not None else n
    if link != "ccid":
        ks = range(1, n + 1) if n <= 6 else sorted({1, 2, rf, n})
        for k in ks:
            for wf in wfaults:
                if only is not None and only.get("sub") != ["cancel", k, wf]:
                    continue
                case = {"family": "pn53x_family", "stage": "twofault", "driver": drv, "kind": kind, "variant": cell.variant,
                        "sub": ["cancel", k, wf]}
                cell.reset()
                out, exc, data = cell.exchange({k: ["fault", "ack-silence"], "ack": ["fault", wf]})
                hit = [a for a in sim.applied if a[0] == "ack"]
                R.case(("twofault", drv, kind, cell.variant, "cancel", k, wf), nontrivial=bool(hit))
                if not hit:
                    R.count("%s_c13_twofault_cancel_write_not_reached" % drv)
                    continue
                R.count("%s_c13_twofault_cancel_write_checked" % drv)
                name = S.NAMES.get(cmds[k - 1], "%02X" % cmds[k - 1])
                R.seen("pn53x_c13_twofault_outcomes", "%s/cancel/%s/%s->%s" % (drv, name, wf, ":".join(str(x) for x in out[:2])))
                what = "chip silent after the ACK of %s, then the cancel ACK write fails (%s)" % (name, wf)
                where = "silent+cancel-write-fails"
                if coarse_clause(R, cell, out, exc, where, name, what, case):
                    continue
                if fidelity_clause(R, cell, k, ["twofault"], None, out, data, case, where, name):
                    continue
                chain = exc.__context__ if exc is not None else None
                if chain is not None and not (public_exception_type(chain) or type(chain).__module__.startswith("nfc.clf")):
                    R.count("%s_c13_twofault_foreign_context_not_judged" % drv)
                out2, exc2, data2 = cell.exchange({})
                R.count("%s_c13_twofault_followup_checked" % drv)
                if not coarse_clause(R, cell, out2, exc2, where + "+next-exchange", last_command_name(sim), what + ", then a regular exchange",
                                     dict(case, follow=True)):
                    fidelity_clause(R, cell, 0, ["twofault"], None, out2, data2, dict(case, follow=True), where + "+next-exchange",
                                    last_command_name(sim))
    hard = [f for f in S.faults_for(link) if S.fault_phase(link, f)]
    if tier == "quick":
        hard = [f for f in hard if not S.errno_collision(f)]
    firsts = [a for a in TWOFAULT_FIRST[cell.role] if link != "ccid" or a != ["fault", "ack-silence"]]
    if link == "ccid":
        firsts.append(["fault", "etimedout"])
    for first in firsts:
        if first[0] == "status" and not sim.has_status(cmds[rf - 1]):
            continue
        for f in hard:
            if only is not None and only.get("sub") != ["next", first, f]:
                continue
            case = {"family": "pn53x_family", "stage": "twofault", "driver": drv, "kind": kind, "variant": cell.variant,
                    "sub": ["next", first, f]}
            cell.reset()
            out, exc, data = cell.exchange({rf: first})
            n1 = sim.since_mark()
            delivered1 = any(a[0] == rf for a in sim.applied)
            out2, exc2, data2 = cell.exchange({n1 + 1: ["fault", f]})
            delivered2 = any(a[0] == n1 + 1 for a in sim.applied)
            R.case(("twofault", drv, kind, cell.variant, "next", tuple(first), f), nontrivial=delivered1 and delivered2)
            if not (delivered1 and delivered2):
                R.count("%s_c13_twofault_next_not_delivered" % drv)
                continue
            R.count("%s_c13_twofault_next_exchange_checked" % drv)
            name = last_command_name(sim)
            phase = S.fault_phase(link, f)
            where = "rf-error-then-hostlink-%s" % phase
            what = "%r at the RF command, then %s at the first host command of the next exchange" % (first, f)
            R.seen("pn53x_c13_twofault_outcomes", "%s/next/%s/%s->%s" % (drv, first[1], phase, ":".join(str(x) for x in out2[:2])))
            if coarse_clause(R, cell, out, exc, "first-of-two", name, what, case):
                continue
            if coarse_clause(R, cell, out2, exc2, where, name, what, case):
                continue
            if out2[0] != "ioerror":
                got = out2[1] if out2[0] == "comm" else out2[0]
                R.violation("%s/class/hostlink-%s/after-rf-error@%s->%s" % (drv, phase, name, got),
                            "%s %s: %s: the host link failed but the driver reported %s instead of IOError" % (drv, kind, what, got), case)


# cells and shards ------------------------------------------------------------------------------------------
QUICK_EXTRA = {"t4a": [1], "dep424": [1], "l-tt2": [1], "l-tt4": [1], "l-tt3": [1], "t2t": [1], "l-dep106": [1]}


def all_cells(tier):
    out = []
    for d in DRIVERS:
        for k in SUPPORT[d]:
            vs = range(n_variants(k)) if tier != "quick" else [0] + QUICK_EXTRA.get(k, [])
            out += [(d, k, v) for v in vs]
    return out


def cell_weight(d, k, v=0):
    role = kind_info(k)[0]
    w = {"t1t-read8": 4.0, "l-tt3": 1.0}.get(k, 2.0 if role == "ini" else 1.2)
    if d == "pn533":
        w *= 2.0
        if k == "t1t-read8":
            w *= 2.5
    if d == "rcs956":
        w *= 1.3
    return w


def plan_c13(tier):
    n = 10 if tier == "quick" else 14
    cells = sorted(all_cells(tier), key=lambda c: (-cell_weight(*c), c))
    bins = [[0.0, []] for _ in range(n)]
    for c in cells:
        b = min(bins, key=lambda x: x[0])
        b[0] += cell_weight(*c)
        b[1].append(list(c))
    return [{"cells": b[1], "timeout": 300 if tier == "quick" else 1500} for b in bins]


def run_c13(desc, R, rng):
    if not selftests(R):
        return
    for d, k, v in desc["cells"]:
        run_cell_c13(R, d, k, desc.get("tier", "quick"), rng, variant=v)
        if v == 0 and k in ACTIVATION_KINDS:
            run_activation_c13(R, d, k, desc.get("tier", "quick"), rng)
    # a scripted action that the simulator could not apply says nothing about the driver: more than 5 % of them in
    # this shard and the enumeration is not what RULE_C13 claims
    cnt = R.counters if hasattr(R, "counters") else {}
    for d in sorted({c[0] for c in desc["cells"]}):
        total = cnt.get("%s_c13_exchanges" % d, 0) + cnt.get("%s_c13_activation_attempts" % d, 0)
        missed = cnt.get("%s_c13_action_not_delivered" % d, 0)
        if total and missed * 20 > total:
            R.inconc("%s: %d of %d scripted actions were not delivered by the simulator (> 5 %%)" % (d, missed, total))
    R.exhaustive = False


def replay_c13(case, R):
    if not selftests(R):
        return
    action = list(case.get("action") or ["none"])
    if case.get("stage") == "activation":
        run_activation_c13(R, case["driver"], case["kind"], "quick", random.Random(0), only=(int(case["k"]), action))
        return
    if case.get("stage") in ("timeout", "twofault"):
        run_cell_c13(R, case["driver"], case["kind"], "quick", random.Random(0), only=(-1, [case["stage"]], False, case),
                     variant=int(case.get("variant", 0)))
        return
    if action[0] == "none":
        run_cell_c13(R, case["driver"], case["kind"], "quick", random.Random(0), only=(-1, ["none"], False),
                     variant=int(case.get("variant", 0)))
        return
    run_cell_c13(R, case["driver"], case["kind"], "quick", random.Random(0),
                 only=(int(case["k"]), action, bool(case.get("follow"))), variant=int(case.get("variant", 0)))


# =========================================================================================================
# C14
def chipset_for(R, driver):
    made = safe_make(R, driver, "c14")
    if made is None:
        return None
    clf, dev, sim, tr = made
    sim.command_bound = 10 ** 9         # C14 loops are bounded by construction
    reads = []
    inner = tr.read

    def recording_read(*a, **kw):
        f = inner(*a, **kw)
        reads.append(bytes(f) if f is not None else None)
        return f
    tr.read = recording_read            # boundary transport -> Chipset: what the driver is really given
    sim.vf_reads = reads
    return dev.chipset, sim, clf


def quick_lengths(maxlen, rng, tier):
    if tier != "quick":
        return list(range(0, maxlen + 1))
    ls = set(range(0, 7)) | set(range(250, 271)) | {maxlen - 2, maxlen - 1, maxlen} | {rng.randrange(7, 250) for _ in range(20)}
    return sorted(x for x in ls if 0 <= x <= maxlen)


def good_items(sim, cmd, payload, extended=None):
    if sim.link == "ccid":
        return [F.ccid_build_datablock(bytes([0xD5, (cmd + 1) & 0xFF]) + bytes(payload) + b"\x90\x00", 0, 0, 0, 0x81)]
    return [F.ACK, F.build_response(cmd, payload, extended)]


def run_command_side(R, driver, tier, rng, reps, only=None):
    """frames written by the real Chipset.command(); only=(cmd, data) for replay"""
    made = chipset_for(R, driver)
    if made is None:
        return
    chipset, sim, clf = made
    ccid = sim.link == "ccid"
    maxlen = chipset.host_command_frame_max_size - 2
    captured = {}
    state = {"payload": b""}

    def responder(cmd, params):
        captured["cmd"], captured["params"] = cmd, bytes(params)
        return good_items(sim, cmd, state["payload"])
    sim.responder = responder
    codes = sorted(chipset.CMD)
    lens = quick_lengths(maxlen, rng, tier)
    todo = [(c, None) for c in codes] if only is None else [only]
    for code, fixed in todo:
        for ln in (lens if fixed is None else [len(fixed)]):
            for rep in range(reps if fixed is None else 1):
                data = rng.randbytes(ln) if fixed is None else bytes(fixed)
                if fixed is None and rep == 1 and ln >= 3:
                    # what delimits frames on the link must be harmless inside a payload: start code, ACK, NACK, zeros
                    pat = rng.choice([b"\x00\x00\xff", bytes(F.ACK), bytes(F.NACK), b"\x00\xff", b"\x00\x00\xff\xff\xff"])[:ln]
                    at = rng.choice([0, ln - len(pat), rng.randrange(0, ln - len(pat) + 1)])
                    data = data[:at] + pat + data[at + len(pat):]
                    R.count("%s_frames_payload_with_start_code" % driver)
                rlen = rng.choice([0, 1, 2, 252, 253, 254, 255, 256, 262, rng.randrange(0, 263)])
                if driver in ("pn531", "arygonA"):
                    rlen = min(rlen, 252)
                if ccid:
                    rlen = min(rlen, 260)
                state["payload"] = rng.randbytes(rlen)
                captured.clear()
                sim.bad_writes = []
                case = {"family": "pn53x_family", "part": "command", "driver": driver, "cmd": code, "data": data}
                R.case(("cmdframe", driver, code, data), nontrivial=True)
                R.count("%s_frames_validated" % driver)
                try:
                    got = chipset.command(code, bytearray(data), 0.1)
                except Exception as e:       # noqa
                    if check_bad_writes(R, sim, driver, case):
                        continue
                    R.violation("%s/build/escape/%s" % (driver, exc_sig(e)),
                                "%s Chipset.command(%02Xh, %d bytes) raised %r although the payload is legal and the "
                                "simulated chip answered correctly" % (driver, code, ln, e), case)
                    continue
                if check_bad_writes(R, sim, driver, case):
                    continue
                if captured.get("cmd") != code or captured.get("params") != data:
                    R.violation("%s/host-frame-content" % driver,
                                "%s frame for command %02Xh does not carry the command code / payload given" % (driver, code), case)
                    continue
                if got is None or bytes(got) != state["payload"]:
                    R.violation("%s/response-content/len%s" % (driver, "gt255" if rlen > 253 else "le255"),
                                "%s a valid response of %d payload bytes was not returned intact" % (driver, rlen), case)
                if rep == 0 and ln in (3, 254) and code == codes[0]:
                    R.sample({"driver": driver, "command": code, "payload_len": ln, "response_payload_len": rlen,
                              "frame_valid": True})
                if ccid:
                    R.count("%s_frames_ccid" % driver)
                else:
                    R.count("%s_frames_%s" % (driver, "extended" if ln + 2 > 255 else "normal"))
                    R.count("%s_responses_%s" % (driver, "extended" if rlen + 2 > 255 else "normal"))
    for k, v in sim.frames_ok.items():
        R.count("%s_sim_accepted_%s" % (driver, k), v)


def mutations(base, rng, nrand, full):
    """(class name, mutated bytes) for one valid frame"""
    b = bytes(base)
    n = len(b)
    for i in range(n * 8):
        m = bytearray(b)
        m[i // 8] ^= 1 << (i % 8)
        yield "bitflip", bytes(m)
    for i in range(1, n):
        yield "truncate", b[:i]
    for ext in (b"\x00", b"\xff", b"\x00\x00", rng.randbytes(3)):
        yield "extend", b + ext
    for pre in (b"\x00", b"\xff", rng.randbytes(1)):
        yield "prepend", pre + b
    for i in (1, 2, 3):
        if n > i + 1:
            yield "behead", b[i:]
    deltas = (1, 5, 0x80) if (full or n < 64) else (5,)
    for i in range(n - 1):
        for d in deltas:
            m = bytearray(b)
            m[i] = (m[i] - d) & 0xFF
            m[i + 1] = (m[i + 1] + d) & 0xFF
            yield "pair-sum", bytes(m)
    for _ in range(nrand):
        m = bytearray(b)
        cnt = rng.randrange(1, 5)
        pos = rng.randrange(0, n)
        for j in range(cnt):
            if rng.random() < 0.7:
                p = min(n - 1, pos + j)
            else:
                p = rng.randrange(n)
            m[p] = rng.randrange(256)
        if bytes(m) != b:
            yield "substitute", bytes(m)
    # the tail: the two last bytes replaced by every pair with the same sum would be 256 cases; sample a few
    for d in (1, 2, 0x7F, 0xFF):
        m = bytearray(b)
        m[-2] = (m[-2] - d) & 0xFF
        m[-1] = (m[-1] + d) & 0xFF
        yield "pair-sum", bytes(m)


def judge_response(R, driver, sim, chipset, cmd, sent, consumed, cls, case, readonly=False):
    """run one command whose answer is `sent` (list of queue items); consumed = the frame the driver parses as the
    response.  readonly: Chipset.command(cmd, None, t) - nothing is written, the frames are waiting already.
    Returns outcome tag."""
    import nfc.clf.pn53x as pn53x
    from vf.sim.chipsets import pn53x as S
    ccid = sim.link == "ccid"
    sim.responder = lambda c, p: list(sent)
    del sim.vf_reads[:]
    given = consumed

    def handed_over():
        # the frame the transport gave to Chipset.command as the response = first frame read that is not an ACK;
        # an ACK glued in front of it in one transfer is not part of the response frame
        for f in sim.vf_reads:
            if f is not None and f != F.ACK:
                return f[len(F.ACK):] if cls.startswith("glued") and f[:len(F.ACK)] == F.ACK and len(f) > len(F.ACK) else f
        return given
    try:
        if readonly:
            flush = getattr(getattr(chipset.transport, "tty", None), "flushInput", None)
            if flush is not None:
                flush()                    # nothing is written on this path, so nothing flushes a serial port's buffer
            sim.q = list(sent)
            got = chipset.command(cmd, None, 0.1)
        else:
            got = chipset.command(cmd, bytearray(b"\x01\x02"), 0.1)
        consumed = handed_over()
    except S.SimBound as e:
        R.inconc("%s: simulator command bound: %s" % (driver, e))
        return "bound"
    except OSError:
        R.count("%s_mut_%s_rejected" % (driver, cls))
        return "rejected"
    except pn53x.Chipset.Error as e:
        consumed = handed_over()
        s = F.split(consumed, 1)
        if not ccid and s["kind"] == "info" and s["tfi"] == 0x7F and not ({"lcs", "len-mismatch", "startcode", "preamble"} & set(s["clauses"])) \
                and (sum(s["data"]) + (s["dcs"] or 0) + (s["postamble"] or 0)) & 0xFF == 0:
            R.count("%s_mut_%s_errorframe" % (driver, cls))
            if s["clauses"]:
                R.violation("%s/error-frame-invalid/%s" % (driver, "dcs-postamble-sum" if F.dcs_postamble_confused(consumed) else s["clauses"][0]),
                            "%s took an invalid frame for a syntax error frame" % driver, case)
            return "errorframe"
        R.violation("%s/reject-not-ioerror/%s" % (driver, exc_sig(e)),
                    "%s a corrupted response (%s) raised Chipset.Error, not IOError" % (driver, cls), case)
        return "violation"
    except Exception as e:       # noqa
        R.violation("%s/reject-not-ioerror/%s" % (driver, exc_sig(e)),
                    "%s a corrupted response (%s: %s) raised %s, not IOError" % (driver, cls, bytes(consumed)[:16].hex(), type(e).__name__), case)
        return "violation"
    if got is None:
        R.count("%s_mut_%s_none" % (driver, cls))
        return "none"
    # accepted: data returned => must be valid, and the data must be what the frame carries
    R.count("%s_mut_%s_accepted" % (driver, cls))
    if ccid:
        bad = F.acr122_response_clauses(consumed, cmd)
        carried = bytes(consumed)[12:-2] if not bad else None
    else:
        bad = F.response_clauses(consumed, cmd)
        carried = F.split(consumed, 1)["data"][2:] if not bad else None
    if bad:
        mech = "dcs-postamble-sum" if (not ccid and F.dcs_postamble_confused(consumed)) else bad[0]
        R.violation("%s/accept-invalid/%s" % (driver, mech),
                    "%s returned data from a response frame that is invalid (%s): %s" % (driver, ",".join(bad), bytes(consumed)[-12:].hex()), case)
        return "violation"
    if bytes(got) != carried:
        R.violation("%s/accept-wrong-data" % driver, "%s returned other data than the valid frame carries" % driver, case)
        return "violation"
    return "accepted"


def struct_positions(frame, ccid):
    """(name, index) of every structural octet of a valid response frame / ACR122U answer"""
    f = bytes(frame)
    n = len(f)
    if ccid:
        # RDR_to_PC_DataBlock: bMessageType, dwLength (4, little endian); pseudo-APDU: D5, response code, .., SW1 SW2
        return [("ccid-type", 0), ("ccid-len", 1), ("ccid-len", 2), ("ccid-len", 3), ("ccid-len", 4),
                ("tfi", 10), ("code", 11), ("sw", n - 2), ("sw", n - 1)]
    if f[3:5] == b"\xff\xff":
        return [("preamble", 0), ("startcode", 1), ("startcode", 2), ("extmark", 3), ("extmark", 4), ("len", 5), ("len", 6),
                ("lcs", 7), ("tfi", 8), ("code", 9), ("dcs", n - 2), ("postamble", n - 1)]
    return [("preamble", 0), ("startcode", 1), ("startcode", 2), ("len", 3), ("lcs", 4), ("tfi", 5), ("code", 6),
            ("dcs", n - 2), ("postamble", n - 1)]


def struct_mutations(base, ccid):
    """every structural octet replaced by each of the 255 other values: "struct-bare" as it is, "struct-comp" with the
    checksum that covers the octet recomputed (LCS after a length octet, DCS after TFI / response code / first payload
    octet), so that exactly the clause of that octet fails under the validator - or, for a payload octet, none"""
    b = bytes(base)
    pos = struct_positions(b, ccid)
    ext = (not ccid) and b[3:5] == b"\xff\xff"
    hdr = 8 if ext else 5
    for name, i in pos:
        for v in range(256):
            if v == b[i]:
                continue
            m = bytearray(b)
            m[i] = v
            yield "struct-bare", name, bytes(m)
    if ccid:
        return
    comp = [(name, i) for name, i in pos if name in ("len", "tfi", "code")]
    if len(b) - 2 > hdr + 2:
        comp.append(("payload", hdr + 2))
    for name, i in comp:
        for v in range(256):
            if v == b[i]:
                continue
            m = bytearray(b)
            m[i] = v
            if name == "len":
                if ext:
                    m[7] = (-(m[5] + m[6])) & 0xFF
                else:
                    m[4] = (-m[3]) & 0xFF
            else:
                m[-2] = (-sum(m[hdr:-2])) & 0xFF
            yield "struct-comp", name, bytes(m)


def only_clause(m, cmd, ccid):
    """the single clause of the validator a would-be response breaks, None if it breaks none or several"""
    bad = F.acr122_response_clauses(m, cmd) if ccid else F.response_clauses(m, cmd)
    if len(bad) > 1 and "not-information-frame" in bad:
        bad.remove("not-information-frame")          # a consequence of the clause in front of it, not a clause
    return bad[0].replace("-", "_") if len(bad) == 1 else None


RSP_CODES_QUICK_EXTRA = [0x02, 0x00, 0x4A, 0x40, 0x88, 0x8C, 0x90]       # next to InCommunicateThru / ReadRegister


def run_response_side(R, driver, tier, rng, only=None):
    made = chipset_for(R, driver)
    if made is None:
        return
    chipset, sim, clf = made
    ccid = sim.link == "ccid"
    full = tier != "quick"
    small = driver in ("pn531", "arygonA")
    if only is not None:
        sent = [bytes(x) for x in only["sent"]]
        case = dict(only)
        judge_response(R, driver, sim, chipset, only["cmd"], sent, bytes(only["consumed"]), only.get("cls", "replay"), case,
                       readonly=bool(only.get("readonly")))
        return

    def trial(cmd, items, m, cls, key, isolate=False, readonly=False):
        case = {"family": "pn53x_family", "part": "response", "driver": driver, "cmd": cmd, "cls": cls,
                "sent": items, "consumed": m}
        if readonly:
            case["readonly"] = True
        R.case((key, driver, cmd, m), nontrivial=True)
        R.count("%s_responses_mutated" % driver)
        R.count("%s_mut_%s" % (driver, cls.replace("-", "_")))
        if cmd not in (0x42, 0x06):
            R.count("%s_mut_other_response_codes" % driver)
        verdict = judge_response(R, driver, sim, chipset, cmd, items, m, cls, case, readonly=readonly)
        if isolate:
            c = only_clause(m, cmd, ccid)
            if c is not None:
                R.count("%s_mut_only_%s_%s" % (driver, c, verdict))
        if R.evals % 4999 == 0:
            R.sample({"driver": driver, "mutation": cls, "response": m[:24], "verdict": verdict})
        return verdict

    plens = [0, 1, 2, 16, 200, 252] if small else [0, 1, 2, 16, 200, 252, 253, 254, 262]
    if full:
        plens = sorted(set(plens + [3, 5, 64, 128, 251] + ([] if small else [255, 256, 263])))
    cmds = [0x42, 0x06] if not full else [0x42, 0x06, 0x88, 0x00, 0x4A]
    plan = [(c, pl) for c in cmds for pl in plens]
    # the other response codes the drivers meet: short frames, every class of mutation
    plan += [(c, pl) for c in RSP_CODES_QUICK_EXTRA if c not in cmds for pl in ((1, 7) if not full else (0, 1, 7, 40))]
    for cmd, pl in plan:
        payload = rng.randbytes(pl)
        base_items = good_items(sim, cmd, payload)
        base = base_items[-1]
        case = {"family": "pn53x_family", "part": "response", "driver": driver, "cmd": cmd, "cls": "base",
                "sent": base_items, "consumed": base}
        R.count("%s_mut_bases" % driver)
        R.seen("pn53x_response_codes_mutated", "%s/%02X" % (driver, (cmd + 1) & 0xFF))
        if judge_response(R, driver, sim, chipset, cmd, base_items, base, "base", case) != "accepted":
            R.violation("%s/reject-valid" % driver, "%s did not return the data of a valid response (%d payload bytes)" % (driver, pl), case)
            continue
        if not ccid:
            R.count("%s_responses_%s_mutated" % (driver, "extended" if F.split(base)["extended"] else "normal"))
        nrand = (60 if pl < 64 else 150) if not full else 1500
        heavy = pl >= 64 and not full
        for cls, m in mutations(base, rng, nrand, full):
            if heavy and cls == "bitflip" and cmd != cmds[0]:
                continue                      # long frames: all bit flips once per length in the quick tier
            trial(cmd, base_items[:-1] + [m], m, cls, "rsp", isolate=cls in ("prepend", "behead"))
    # every structural octet x all 255 other values, bare and with the covering checksum recomputed: a normal frame, an
    # extended frame (quick: a short one - the chip may use the extended format for any length; thorough: also >255)
    sweep = [(0x42, 5, None)]
    if not ccid and not small:
        sweep.append((0x06, 3, True))
        if full:
            sweep += [(0x42, 300, None), (0x88, 1, True)]
    if full:
        sweep += [(0x4A, 0, None), (0x06, 1, None)]
    for cmd, pl, ext in sweep:
        payload = rng.randbytes(pl)
        base_items = good_items(sim, cmd, payload, ext)
        base = base_items[-1]
        case = {"family": "pn53x_family", "part": "response", "driver": driver, "cmd": cmd, "cls": "base",
                "sent": base_items, "consumed": base}
        if judge_response(R, driver, sim, chipset, cmd, base_items, base, "base", case) != "accepted":
            R.violation("%s/reject-valid/%s" % (driver, "extended" if ext else "normal"),
                        "%s did not return the data of a valid %s response frame (%d payload bytes)" % (
                            driver, "extended" if ext else "normal", pl), case)
            continue
        R.count("%s_struct_sweep_bases" % driver)
        if not ccid and F.split(base)["extended"]:
            R.count("%s_struct_sweep_extended_bases" % driver)
        for cls, name, m in struct_mutations(base, ccid):
            R.count("%s_struct_%s" % (driver, name.replace("-", "_")))
            trial(cmd, base_items[:-1] + [m], m, cls, "struct", isolate=True)
    if not ccid:
        payload = rng.randbytes(5)
        rsp = F.build_response(0x42, payload)
        # the ACK in front of the response (frame links only): whatever the driver ends up parsing must be valid
        for cls, m in mutations(F.ACK, rng, 30, True):
            if cls in ("extend", "prepend", "behead") or m == F.ACK:
                continue
            items = [m, rsp]
            consumed = m              # a non-ACK first frame is what the driver parses
            case = {"family": "pn53x_family", "part": "response", "driver": driver, "cmd": 0x42, "cls": "ack-" + cls,
                    "sent": items, "consumed": consumed}
            R.case(("ack", driver, m), nontrivial=True)
            R.count("%s_ack_mutated" % driver)
            judge_response(R, driver, sim, chipset, 0x42, items, consumed, "ack", case)
        # ACK and response handed over by the transport in one piece: either refused (IOError) or the response part is
        # parsed and validated like any response (a transport with stream semantics delivers them separately anyway)
        for pl in (0, 5, 40):
            rsp = F.build_response(0x42, rng.randbytes(pl))
            v = trial(0x42, [F.ACK + rsp], rsp, "glued-valid", "glued")
            R.count("%s_glued_valid_%s" % (driver, v))
            for cls, m in mutations(rsp, rng, 20, False):
                if cls in ("bitflip", "substitute", "pair-sum") and m != rsp:
                    trial(0x42, [F.ACK + m], m, "glued-" + cls, "glued")
        # Chipset.command(code, None, timeout): nothing written, the response is read and validated the same way
        for j, (cmd, pl) in enumerate(((0x88, 17), (0x42, 5), (0x06, 1)) if full else ((0x88, 17), (0x06, 1))):
            rsp = F.build_response(cmd, rng.randbytes(pl))
            for items in ([rsp], [F.ACK, rsp]):
                case = {"family": "pn53x_family", "part": "response", "driver": driver, "cmd": cmd, "cls": "readonly-base",
                        "sent": items, "consumed": rsp, "readonly": True}
                if judge_response(R, driver, sim, chipset, cmd, items, rsp, "readonly-base", case, readonly=True) != "accepted":
                    R.violation("%s/reject-valid/read-only" % driver,
                                "%s Chipset.command(%02Xh, None, t) did not return the data of the valid response that was "
                                "waiting" % (driver, cmd), case)
                    continue
                R.count("%s_readonly_bases" % driver)
            for cls, m in mutations(rsp, rng, 30, False):
                trial(cmd, [m], m, "readonly-" + cls, "readonly", readonly=True)
            for cls, name, m in struct_mutations(rsp, False):
                if cls == "struct-comp" and (j == 0 or full):
                    trial(cmd, [m], m, "readonly-" + cls, "readonly", isolate=True, readonly=True)


# ---- CRC ------------------------------------------------------------------------------------------------------
def crc_compare(R, msg, dev):
    """nfcpy helpers vs reference for one message; returns False on a mismatch (violation recorded)"""
    msg = bytes(msg)
    ok = True
    case = {"family": "pn53x_family", "part": "crc", "msg": msg}
    for name, add, chk, ref in (("crc_a", dev.add_crc_a, dev.check_crc_a, refcrc.crc_a),
                                ("crc_b", dev.add_crc_b, dev.check_crc_b, refcrc.crc_b)):
        want = msg + ref(msg)
        try:
            buf = bytearray(msg)
            got = bytes(add(buf))
            if bytes(buf) != msg:
                R.count("pn53x_crc_add_modifies_argument")       # observation (explains tx-frame witnesses)
            acc = chk(bytearray(want))
        except Exception as e:      # noqa
            R.violation("crc/%s/escape/%s" % (name, exc_sig(e)), "%s helper raised %r" % (name, e), case)
            ok = False
            continue
        if got != want:
            R.violation("crc/%s/add-differs-from-iso14443-3" % name,
                        "add_%s(%s) = %s, ISO/IEC 14443-3 gives %s" % (name, msg[:8].hex(), got[-2:].hex(), want[-2:].hex()), case)
            ok = False
        if acc is not True:
            R.violation("crc/%s/check-rejects-correct" % name, "check_%s rejects a frame with the correct CRC" % name, case)
            ok = False
    return ok


def crc_flips(R, msg, dev, rng, every=True):
    msg = bytes(msg)
    for name, chk, ref in (("crc_a", dev.check_crc_a, refcrc.crc_a), ("crc_b", dev.check_crc_b, refcrc.crc_b)):
        frame = msg + ref(msg)
        bits = range(len(frame) * 8) if every else rng.sample(range(len(frame) * 8), min(16, len(frame) * 8))
        for i in bits:
            m = bytearray(frame)
            m[i // 8] ^= 1 << (i % 8)
            R.count("pn53x_crc_bitflips")
            if chk(m) is not False:
                R.violation("crc/%s/check-accepts-corrupted" % name,
                            "check_%s accepts %s (bit %d of a valid frame flipped)" % (name, bytes(m).hex()[:40], i),
                            {"family": "pn53x_family", "part": "crcflip", "msg": msg, "bit": i, "which": name})


def run_crc(R, desc, rng):
    import nfc.clf.device as device
    dev = device.Device
    lo, hi = desc["first"]
    n = 0
    if lo == 0:
        crc_compare(R, b"", dev)
        n += 1
    for a in range(lo, hi):
        crc_compare(R, bytes([a]), dev)
        crc_flips(R, bytes([a]), dev, rng)
        n += 1
        for b in range(256):
            crc_compare(R, bytes([a, b]), dev)
            n += 1
            if desc.get("ex3"):
                for c in range(256):
                    m = bytes([a, b, c])
                    # fast path: only the add_* comparison (check_* is exercised on the 2 byte level and randomly)
                    if bytes(dev.add_crc_a(bytearray(m))[-2:]) != refcrc.crc16_annex(m, 0x6363).to_bytes(2, "little") or \
                            bytes(dev.add_crc_b(bytearray(m))[-2:]) != (refcrc.crc16_annex(m, 0xFFFF) ^ 0xFFFF).to_bytes(2, "little"):
                        crc_compare(R, m, dev)
                n += 256
        if a % 8 == 0:
            for b in range(0, 256, 37):
                crc_flips(R, bytes([a, b]), dev, rng)
    R.bulk(n, n)
    R.count("pn53x_crc_cases", n)
    R.count("pn53x_crc_exhaustive_short", n)
    for i in range(desc["rand"]):
        ln = rng.choice([3, 4, 5, 8, 16, 17, 18, 64, 255, 256, 300, rng.randrange(3, 400)])
        m = rng.randbytes(ln)
        R.case(("crc", m))
        R.count("pn53x_crc_cases")
        R.count("pn53x_crc_random")
        crc_compare(R, m, dev)
        crc_flips(R, m, dev, rng, every=(ln <= 18))
    # calculate_crc itself against both reference formulations
    for i in range(200):
        m = rng.randbytes(rng.randrange(0, 40))
        for init in (0x6363, 0xFFFF):
            R.count("pn53x_crc_calculate_cases")
            if device.calculate_crc(bytearray(m), len(m), init) != refcrc.crc16_bitwise(m, init):
                R.violation("crc/calculate_crc/differs", "calculate_crc differs from the ISO/IEC 14443-3 shift register",
                            {"family": "pn53x_family", "part": "crc", "msg": m})


SEL_NAMED = [0x08, 0x09, 0x10, 0x18, 0x88, 0x04, 0x01, 0x98]       # MIFARE Classic 1K/Mini/Plus/4K, SmartMX, ...
SEL_TT2 = [v for v in range(256) if v & 0x60 == 0]                  # what sense_tta() treats as "Type 2 Tag platform"
SEL_OTHER = [0x20, 0x28, 0x38, 0x40, 0x60, 0xA0]                    # ISO-DEP / NFC-DEP capable: the CIU keeps checking


def sel_class(sel):
    if sel == 0:
        return "selres-00"
    if sel & 0x60 == 0:
        return "selres-tt2-nonzero"
    return "selres-iso-or-dep"


def run_selres_crc(R, driver, tier, rng, only=None):
    """Type 2 Tag platform targets over every SEL_RES value with (SEL_RES & 60h) == 0 (plus a few ISO-DEP/NFC-DEP
    ones), discovered through the real clf.sense(); the simulated CIU verifies/strips CRC_A exactly when the driver
    left CIU_RxMode.RxCRCEn set.  On-air answers are chosen by the monitor (intact, every/sampled single-bit flips,
    substitutions): a frame whose CRC_A is wrong under vf.ref.crc must never come back as data, an intact frame
    must come back as its payload without the CRC octets."""
    if "t2t" not in SUPPORT[driver]:
        return
    if only is not None:
        sels = [int(only["sel_res"])]
    elif tier == "quick":
        sels = SEL_TT2 + SEL_OTHER
    else:
        sels = list(range(256))
    for sel in sels:
        cell = Cell(driver, "t2t", 0, R, "c14", field_opts={"sel_res": sel})
        if not cell.ok:
            if not cell.init_failed:
                R.inconc("%s: cannot enter t2t with SEL_RES %02Xh" % (driver, sel))
            continue
        got_sel = cell.clf.target.sel_res
        if got_sel is None or len(got_sel) != 1 or got_sel[0] != sel:
            R.inconc("%s: sense() reports SEL_RES %r for a target that answers %02Xh" % (driver, got_sel, sel))
            continue
        cls_sel = sel_class(sel)
        rxcrc = bool(cell.sim.st.regs.get(0x6303, 0x80) & 0x80)
        R.count("%s_t2t_%s_cells" % (driver, cls_sel.replace("-", "_")))
        R.seen("pn53x_selres_rxcrcen", "%s/%s/RxCRCEn=%d" % (driver, cls_sel, rxcrc))

        def trial(raw, cls):
            crc_trial(R, cell, driver, "t2t", "a", raw, cls, sel)

        if only is not None:
            trial(only["raw"], only.get("cls", "replay"))
            continue
        full = tier != "quick" or sel in SEL_NAMED or sel == 0
        for ln in ([16, 1, 4] if tier == "quick" else [16, 1, 2, 4, 15, 17, 32]):
            good = refcrc.append_crc_a(rng.randbytes(ln))
            trial(good, "valid")
            nbits = len(good) * 8
            bits = range(nbits) if (full and ln == 16) or tier != "quick" else sorted(rng.sample(range(nbits), min(nbits, 20 if ln == 16 else 6)))
            for i in bits:
                m = bytearray(good)
                m[i // 8] ^= 1 << (i % 8)
                trial(bytes(m), "bitflip")
            for _ in range(4 if tier == "quick" else 20):
                m = bytearray(good)
                for __ in range(rng.randrange(1, 4)):
                    m[rng.randrange(len(m))] = rng.randrange(256)
                if bytes(m) != good:
                    trial(bytes(m), "substitute")
        # the 4 bit ACK / NAK of a Type 2 Tag (one octet, no CRC) must reach the caller where the driver asked for it
        if sel & 0x60 == 0:
            trial(b"\x0a", "ack4")


def crc_trial(R, cell, driver, kind, which, raw, cls, sel=None):
    """one exchange whose on-air answer is `raw` (CRC octets included); the C14 CRC oracle"""
    tname = "t2t" if which == "a" else "t1t"
    chk = refcrc.check_crc_a if which == "a" else refcrc.check_crc_b
    suffix = "" if sel is None else "/" + sel_class(sel)
    cname = "%s_t%st_crc_cases" % (driver, "2" if which == "a" else "1") if sel is None else \
        "%s_t2t_%s_crc_cases" % (driver, sel_class(sel).replace("-", "_"))
    cell.reset()
    cell.sim.st.field.rsp_override = bytes(raw)
    out, exc, data = cell.exchange({})
    case = {"family": "pn53x_family", "part": "drvcrc", "driver": driver, "kind": kind, "raw": bytes(raw), "cls": cls}
    if sel is not None:
        case["sel_res"] = sel
    if check_bad_writes(R, cell.sim, driver, case):
        return
    R.case(("drvcrc", driver, kind, sel, bytes(raw)))
    R.count(cname)
    if len(raw) < 3:
        # no room for a CRC: nothing to verify; the octets either come back as they are or the exchange fails
        R.count("%s_drvcrc_short_%s" % (driver, out[0]))
        if out[0] == "data" and data != bytes(raw):
            R.violation("%s/%s-crc/wrong-data-short%s" % (driver, tname, suffix),
                        "%s returned %s for the %d octet answer %s" % (driver, data.hex(), len(raw), bytes(raw).hex()), case)
        elif out[0] == "escape":
            R.violation("%s/escape/%s/crc-%s" % (driver, exc_sig(exc), cls), "%s: %r" % (driver, exc), case)
        elif out[0] == "comm" and cls == "ack4" and sel is not None and sel & 0x60 == 0:
            R.violation("%s/%s-crc/ack-nak-lost%s" % (driver, tname, suffix),
                        "%s raised %s for the 4 bit ACK of a Type 2 Tag (SEL_RES %02Xh)" % (driver, out[1], sel), case)
        return
    valid = chk(raw)
    if out[0] == "data":
        R.count("%s_drvcrc_%s_accepted" % (driver, cls))
        if not valid:
            R.violation("%s/%s-crc/accepted-wrong-crc%s" % (driver, tname, suffix),
                        "%s returned %s as data although its CRC_%s is wrong%s" % (
                            driver, bytes(raw).hex()[:48], which.upper(), "" if sel is None else " (SEL_RES %02Xh)" % sel), case)
        elif data != bytes(raw)[:-2]:
            R.violation("%s/%s-crc/wrong-data%s" % (driver, tname, suffix),
                        "%s returned other data than the frame with the correct CRC carries%s (%d octets for a %d octet "
                        "payload)" % (driver, "" if sel is None else " (SEL_RES %02Xh)" % sel, len(data), len(raw) - 2), case)
    elif out[0] == "comm":
        R.count("%s_drvcrc_%s_rejected" % (driver, cls))
        if valid and cls == "valid":
            R.violation("%s/%s-crc/rejected-correct-crc%s" % (driver, tname, suffix),
                        "%s raised %s for a frame with the correct CRC" % (driver, out[1]), case)
    elif out[0] == "escape":
        R.violation("%s/escape/%s/crc-%s" % (driver, exc_sig(exc), cls), "%s: %r" % (driver, exc), case)
    else:
        R.count("%s_drvcrc_%s_other" % (driver, cls))


def run_driver_crc(R, driver, tier, rng, only=None):
    """driver-side CRC verification: Type 2 Tag READ (CRC_A, all drivers), Type 1 Tag READ8 through the CIU (CRC_B)"""
    if only is not None and only.get("sel_res") is not None:
        return run_selres_crc(R, driver, tier, rng, only)
    kinds = ["t2t"] + (["t1t-read8"] if "t1t-read8" in SUPPORT[driver] and driver != "rcs956" else [])
    for kind in kinds:
        cell = Cell(driver, kind, 0, R, "c14")
        if not cell.ok:
            if not cell.init_failed:
                R.inconc("%s: cannot enter %s for the CRC check" % (driver, kind))
            continue
        cell.rf_cmd_k = None
        which = "a" if kind == "t2t" else "b"
        mk = refcrc.append_crc_a if which == "a" else refcrc.append_crc_b

        def trial(raw, cls, cell=cell, kind=kind, which=which):
            crc_trial(R, cell, driver, kind, which, raw, cls)

        if only is not None:
            if only["kind"] == kind:
                trial(only["raw"], only.get("cls", "replay"))
            continue
        lens = [16] if which == "a" else [9]
        if which == "a":
            lens += [1, 2, 4, 15, 17, 32] if tier == "quick" else list(range(1, 40))
        for ln in lens:
            for rep in range(2 if tier == "quick" else 6):
                body = rng.randbytes(ln)
                if which == "b":
                    body = bytes([3]) + body[1:]
                good = mk(body)
                trial(good, "valid")
                if tier == "quick" and rep > 0 and ln != lens[0]:
                    continue
                for i in range(len(good) * 8):
                    m = bytearray(good)
                    m[i // 8] ^= 1 << (i % 8)
                    trial(bytes(m), "bitflip")
                for _ in range(20):
                    m = bytearray(good)
                    for __ in range(rng.randrange(1, 4)):
                        m[rng.randrange(len(m))] = rng.randrange(256)
                    if bytes(m) != good:
                        trial(bytes(m), "substitute")
        sim = cell.sim
        if sim.crc_b_tx[1]:
            R.violation("%s/crc_b-tx-wrong" % driver, "%s sent a Type 1 Tag command with a wrong CRC_B through the CIU" % driver,
                        {"family": "pn53x_family", "part": "drvcrc", "driver": driver, "kind": kind, "raw": b"", "cls": "tx"})
        R.count("%s_crc_b_tx_checked" % driver, sim.crc_b_tx[0])


# ---- retransmission of the same command buffer ------------------------------------------------------------------
# what the drivers are told to put on air must be the caller's command followed by the ISO/IEC 14443-3 CRC of exactly
# that command - on the first transmission and on every later one of the *same bytearray object* (the retry loops of
# nfc.tag.tt1/tt2 re-send the object they were given after a time-out or transmission error)
RETX_SCHEDULES = [["mute", None], ["badcrc", None], ["mute", "badcrc", None], [None, None], ["hostfault", None]]
RETX_KINDS = ["t1t-read8", "t1t", "t2t", "t4a", "106b", "212f", "dep106", "dep424"]
RETX_EXTRA = {"t1t-read8": [("rseg", H("10100000000000000000b2565400"), 0.1)]}      # 16 READ8 through the CIU per exchange


def allowed_on_air(cmd, path, hwcrc, fkind):
    """-> (set of octet strings the host may hand to the chip for transmission of caller command cmd, clause name);
    None when the monitor has no CRC reference for the path (FeliCa / NFC-DEP frames without the chip's CRC)"""
    cmd = bytes(cmd)
    if path == "ciu":                                   # Type 1 Tag command octet by octet: CRC_B by software
        if cmd[:1] == b"\x10":                          # RSEG: the command itself, or (what the PN533 driver does,
            seg = (cmd[1] >> 4) * 16                    # its firmware having no RSEG) the 16 READ8 of that segment
            return {refcrc.append_crc_b(cmd)} | {refcrc.append_crc_b(bytes([0x02, b]) + cmd[2:])
                                                 for b in range(seg, seg + 16)}, "sw-crc_b"
        return {refcrc.append_crc_b(cmd)}, "sw-crc_b"
    if path == "dx" or hwcrc:                           # firmware / CIU appends the CRC: the command as it is
        return {cmd}, "hw-crc"
    if fkind in ("t2t", "t4a"):
        return {refcrc.append_crc_a(cmd)}, "sw-crc_a"
    if fkind == "106b":
        return {refcrc.append_crc_b(cmd)}, "sw-crc_b"
    return None, "unjudged"


def on_air_mismatch(octets, allowed, cmd):
    """structural name of how a transmitted frame differs from command || CRC"""
    octets, cmd = bytes(octets), bytes(cmd)
    if any(octets.startswith(a) and len(octets) > len(a) for a in allowed):
        return "surplus-octets-after-crc"
    if any(len(octets) == len(a) and octets[:-2] == a[:-2] for a in allowed if len(a) > len(cmd)):
        return "crc-value"
    if octets == cmd:
        return "crc-missing"
    return "command-octets"


def judge_on_air(R, driver, cell, cmd, frames, when, via, case, buf_modified):
    """the C14 on-air clause for the frames of one exchange; True if a violation was recorded"""
    bad = False
    for path, octets, hwcrc in frames:
        allowed, clause = allowed_on_air(cmd, path, hwcrc, cell.fkind)
        R.count("%s_retx_frames_%s" % (driver, clause.replace("-", "_")))
        if when != "first":
            R.count("%s_retx_same_buffer_frames" % driver)
            if clause.startswith("sw-"):
                R.count("%s_retx_same_buffer_%s_frames" % (driver, clause.replace("-", "_")))
        if via == "tt1":
            R.count("pn53x_tt1_retry_loop_frames")
        if allowed is None or octets in allowed:
            continue
        how = on_air_mismatch(octets, allowed, cmd)
        R.violation("%s/tx-frame/%s/%s/%s" % (driver, clause, how, when),
                    "%s %s: transmission (%s) of the command %s put %s on air (%s path), not command || CRC%s" % (
                        driver, cell.kind, when, bytes(cmd).hex()[:40], bytes(octets).hex()[:60], path,
                        "; the driver had changed the caller's buffer" if buf_modified else ""), case)
        bad = True
    return bad


def retx_trial(R, driver, cell, label, cmd, tmo, schedule, n_ref, via="exchange"):
    """one command buffer object sent len(schedule) times through clf.exchange(); schedule says what happens to each
    attempt ("mute": the tag does not hear it, "badcrc": the answer arrives with a broken CRC, "hostfault": the host
    link fails at the last host command, None: nothing)"""
    import nfc.clf
    from vf.sim.chipsets import pn53x as S
    cmd = bytes(cmd)
    case = {"family": "pn53x_family", "part": "retx", "driver": driver, "kind": cell.kind, "label": label, "cmd": cmd,
            "tmo": tmo, "schedule": list(schedule), "via": via}
    cell.reset()
    fld = cell.sim.st.field
    fld.air = []
    buf = bytearray(cmd)
    R.case(("retx", driver, cell.kind, label, tuple(schedule), via))
    R.count("%s_retx_sequences" % driver)
    modified = False
    outcomes = []
    for i, ev in enumerate(schedule):
        seen = len(fld.air)
        fld.air_script = [ev] if ev in ("mute", "badcrc") else []       # hits the first transmission of the attempt
        cell.sim.script = {n_ref: ["fault", "eio" if cell.sim.link == "ccid" else "eio@rsp"]} if ev == "hostfault" else {}
        cell.sim.mark()
        try:
            r = cell.clf.exchange(buf, tmo)
            out = ("data", bytes(r)) if isinstance(r, (bytes, bytearray)) else ("other", repr(r)[:20])
        except nfc.clf.CommunicationError as e:
            out = ("comm", type(e).__name__)
        except OSError as e:
            out = ("ioerror", e.errno)
        except S.SimBound as e:
            R.inconc("%s: simulator command bound in the retransmission workload: %s" % (driver, e))
            return
        except Exception as e:       # noqa  (which exception escapes is C13's matter; the frames are still judged)
            out = ("escape", type(e).__name__)
        outcomes.append(out[0] if out[0] != "comm" else out[1])
        frames = fld.air[seen:]
        now_modified = bytes(buf) != cmd
        if now_modified and not modified:
            R.count("%s_retx_caller_buffer_modified" % driver)
            R.seen("pn53x_retx_caller_buffer_modified", "%s/%s/%s: +%d octets" % (driver, cell.kind, label, len(buf) - len(cmd)))
        modified = modified or now_modified
        when = "first" if i == 0 else "retransmit-same-buffer"
        R.count("%s_retx_exchanges" % driver)
        if check_bad_writes(R, cell.sim, driver, case):
            return
        if judge_on_air(R, driver, cell, cmd, frames, when, via, case, modified):
            return
        if i > 0 and not frames:
            R.count("%s_retx_nothing_on_air" % driver)
    if not modified:
        R.count("%s_retx_caller_buffer_intact" % driver)
    R.seen("pn53x_retx_outcomes", "%s/%s/%s: %s" % (cell.kind, label, "-".join(str(e) for e in schedule), ">".join(outcomes)))
    if schedule[-1] is None and outcomes[-1] == "data":
        R.count("%s_retx_recovered" % driver)


def tt1_loop_trial(R, driver, cell, op, schedule):
    """the same through the real retry loop of nfc.tag.tt1.Type1Tag.transceive (3 attempts with one command object)"""
    import nfc.tag.tt1
    from vf.sim.chipsets import pn53x as S
    cell.reset()
    fld = cell.sim.st.field
    fld.air = []
    fld.air_script = list(schedule)
    uid = bytes(cell.clf.target.rid_res[2:6])
    blk = bytes(range(0x31, 0x39))
    cmd = {"read_block": bytes([0x02, 3]) + bytes(8) + uid, "write_block": bytes([0x54, 7]) + blk + uid,
           "write_block_ne": bytes([0x1B, 7]) + blk + uid, "read_segment": bytes([0x10, 0x10]) + bytes(8) + uid}[op]
    case = {"family": "pn53x_family", "part": "retx", "driver": driver, "kind": cell.kind, "label": op, "cmd": cmd,
            "schedule": list(schedule), "via": "tt1"}
    R.case(("retx-tt1", driver, op, tuple(schedule)))
    R.count("%s_retx_sequences" % driver)
    try:
        tag = nfc.tag.tt1.Type1Tag(cell.clf, cell.clf.target)
        if op == "read_block":
            got = ("data", bytes(tag.read_block(3)))
        elif op == "read_segment":
            got = ("data", bytes(tag.read_segment(1))[:4])
        else:
            got = ("data", tag.write_block(7, bytearray(blk), erase=(op == "write_block")))
    except nfc.tag.tt1.Type1TagCommandError as e:
        got = ("tag-error", str(e))
    except S.SimBound as e:
        R.inconc("%s: simulator command bound in the tt1 retry loop workload: %s" % (driver, e))
        return
    except Exception as e:       # noqa
        got = ("escape", type(e).__name__)
    frames = list(fld.air)
    if check_bad_writes(R, cell.sim, driver, case):
        return
    if op != "read_segment":
        R.count("pn53x_tt1_retry_loop_retransmissions", max(0, len(frames) - 1))
    R.seen("pn53x_tt1_retry_loop_outcomes", "%s/%s: %s after %d transmissions" % (op, "-".join(str(e) for e in schedule), got[0], len(frames)))
    if judge_on_air(R, driver, cell, cmd, frames[:1], "first", "tt1", case, False):
        return
    if judge_on_air(R, driver, cell, cmd, frames[1:], "retransmit-same-buffer" if op != "read_segment" else "rseg-loop", "tt1", case, False):
        return
    if got[0] == "data":
        R.count("%s_retx_recovered" % driver)


def run_retx(R, driver, tier, rng, only=None):
    for kind in RETX_KINDS:
        if kind not in SUPPORT[driver]:
            continue
        if only is not None and only["kind"] != kind:
            continue
        cell = Cell(driver, kind, 0, R, "c14")
        if not cell.ok:
            if not cell.init_failed:
                R.inconc("%s: cannot enter %s for the retransmission check" % (driver, kind))
            continue
        variants = kind_info(kind, "all")[2] + RETX_EXTRA.get(kind, [])
        if only is not None:
            if only.get("via") == "tt1":
                tt1_loop_trial(R, driver, cell, only["label"], list(only["schedule"]))
                continue
            variants = [(only["label"], only["cmd"], only.get("tmo", 0.1))]
        for label, cmd, tmo in variants:
            if cmd is None or len(cmd) > 64 or tmo > 1.0:
                continue
            # reference: the command in a fresh buffer, to learn the number of host commands and that it works
            cell.reset()
            cell.sim.st.field.air = []
            cell.sim.mark()
            try:
                ref = cell.clf.exchange(bytearray(cmd), tmo)
            except Exception as e:      # noqa
                R.inconc("%s/%s/%s: reference exchange of the retransmission workload failed: %r" % (driver, kind, label, e))
                continue
            n_ref = cell.sim.since_mark()
            if not isinstance(ref, (bytes, bytearray)) or not cell.sim.st.field.air:
                R.inconc("%s/%s/%s: reference exchange of the retransmission workload put nothing on air" % (driver, kind, label))
                continue
            scheds = RETX_SCHEDULES if only is None else [list(only["schedule"])]
            if only is None and tier == "quick" and label == "rseg":
                scheds = RETX_SCHEDULES[:1]
            for sch in scheds:
                retx_trial(R, driver, cell, label, cmd, tmo, sch, n_ref)
        if kind == "t1t-read8" and only is None:
            for op in ("read_block", "write_block", "write_block_ne", "read_segment"):
                for sch in (["mute"], ["badcrc"], ["mute", "mute"], []):
                    if op == "read_segment" and sch not in (["mute"], []):
                        continue
                    tt1_loop_trial(R, driver, cell, op, sch)


# ---- frames written while the driver is really operated -------------------------------------------------------
def run_operation(R, driver, tier, rng, only=None):
    """init(), sense()/listen() into every supported target kind, a regular exchange, an exchange during which the chip
    falls silent at the RF command (the host cancels it with an ACK frame), a regular exchange again, close(): every
    frame / CCID message the driver writes on the way must pass the validator (ACK frames and the ACR122U reader
    commands for LED, PICC parameters and version included)"""
    import nfc.clf
    from vf.sim.chipsets import pn53x as S
    for kind in SUPPORT[driver]:
        if only is not None and only.get("kind") != kind:
            continue
        case = {"family": "pn53x_family", "part": "operation", "driver": driver, "kind": kind}
        prep = prepare(driver, kind, R, "c14")
        if prep == "init-failed":
            return
        clf, sim, role, enter = prep
        sim.command_bound = 10 ** 6
        R.case(("operation", driver, kind))
        steps = []

        def step(name, fn):
            """a stage of the operation; what the call raises is C13's matter, the frames it wrote are judged here"""
            acks0 = sim.aborts                      # every ACK the chip / reader understood (frame link or CCID)
            try:
                r = fn()
            except (nfc.clf.Error, OSError):
                r = None
            except S.SimBound as e:
                R.inconc("%s/%s: simulator command bound in the operation workload: %s" % (driver, kind, e))
                r = None
            except Exception:            # noqa  (C13 judges escapes)
                R.count("%s_op_escapes_not_judged_here" % driver)
                r = None
            steps.append(name)
            R.count("%s_op_acks_at_%s" % (driver, name.replace("-", "_")), sim.aborts - acks0)
            bad = check_bad_writes(R, sim, driver, dict(case, stage=name))
            return r, bad

        if check_bad_writes(R, sim, driver, dict(case, stage="init")):
            continue
        found, bad = step("activate", enter)
        if bad:
            continue
        if found is None:
            R.inconc("%s: could not enter target kind %s for the operation workload" % (driver, kind))
            continue
        role_, fkind, data, tmo = kind_info(kind)
        sim.mark()
        ref, bad = step("exchange", lambda: clf.exchange(bytearray(data) if data is not None else None, tmo))
        if bad:
            continue
        cmds = [c for (_, c, _) in sim.cmdlog]
        n = sim.since_mark()
        rf = [i + 1 for i, c in enumerate(cmds) if c in S.RF_WAIT_CMDS]
        k = rf[-1] if rf else n
        # the chip acknowledges the RF command and then stays silent: time-out inside Chipset.command -> cancel ACK
        sim.script = {n + k: ["fault", "etimedout" if sim.link == "ccid" else "ack-silence"]}
        acks0 = sim.frames_ok["ack"]
        _, bad = step("silent-exchange", lambda: clf.exchange(bytearray(data) if data is not None else None, tmo))
        sim.script = {}
        if bad:
            continue
        if sim.link != "ccid":
            R.count("%s_op_cancel_acks" % driver, sim.frames_ok["ack"] - acks0)
        _, bad = step("exchange-again", lambda: clf.exchange(bytearray(data) if data is not None else None, tmo))
        if bad:
            continue
        _, bad = step("close", clf.close)
        if bad:
            continue
        R.count("%s_op_kinds" % driver)
        R.count("%s_op_frames_validated" % driver, sum(sim.frames_ok.values()))
        R.count("%s_op_acks_validated" % driver, sim.aborts)
        if sim.link != "ccid":
            R.count("%s_sim_accepted_ack" % driver, sim.frames_ok["ack"])
        R.count("%s_op_frames_extended" % driver, sim.frames_ok["extended"])
        for what, cnt in sim.apdu_seen.items():
            R.count("%s_op_reader_apdu_%s_validated" % (driver, what), cnt)
        R.seen("pn53x_op_stages", "%s/%s: %s" % (driver, kind, " ".join(steps)))


def plan_c14(tier):
    descs = []
    groups = [["pn531", "arygonA"], ["pn532", "arygonB"], ["pn533", "pn532rt"], ["rcs956"], ["acr122"]]
    if tier == "quick":
        for g in groups:
            descs.append({"part": "driver", "drivers": g, "reps": 4, "timeout": 300})
        for i in range(4):
            descs.append({"part": "crc", "first": [i * 64, i * 64 + 64], "rand": 800, "timeout": 300})
        descs.append({"part": "drvcrc", "drivers": DRIVERS, "timeout": 300})
        descs.append({"part": "selres", "drivers": DRIVERS[0::2], "timeout": 300})
        descs.append({"part": "selres", "drivers": DRIVERS[1::2], "timeout": 300})
        descs.append({"part": "retx", "drivers": DRIVERS, "timeout": 300})
        descs.append({"part": "operation", "drivers": DRIVERS, "timeout": 300})
    else:
        for d in DRIVERS:
            descs.append({"part": "driver", "drivers": [d], "reps": 2, "timeout": 1500})
        for i in range(8):
            descs.append({"part": "crc", "first": [i * 32, i * 32 + 32], "rand": 4000, "ex3": True, "timeout": 1500})
        descs.append({"part": "drvcrc", "drivers": DRIVERS[:4], "timeout": 1500})
        descs.append({"part": "drvcrc", "drivers": DRIVERS[4:], "timeout": 1500})
        descs[-2]["drivers"], descs[-1]["drivers"] = DRIVERS[0::2], DRIVERS[1::2]
        for d in DRIVERS:
            descs.append({"part": "selres", "drivers": [d], "timeout": 1500})
        descs.append({"part": "retx", "drivers": DRIVERS, "timeout": 1500})
        descs.append({"part": "operation", "drivers": DRIVERS, "timeout": 1500})
    return descs


def run_c14(desc, R, rng):
    if not selftests(R):
        return
    tier = desc.get("tier", "quick")
    if desc["part"] == "driver":
        for d in desc["drivers"]:
            run_command_side(R, d, tier, rng, desc["reps"])
            run_response_side(R, d, tier, rng)
    elif desc["part"] == "crc":
        run_crc(R, desc, rng)
    elif desc["part"] == "drvcrc":
        for d in desc["drivers"]:
            run_driver_crc(R, d, tier, rng)
    elif desc["part"] == "selres":
        for d in desc["drivers"]:
            run_selres_crc(R, d, tier, rng)
    elif desc["part"] == "retx":
        for d in desc["drivers"]:
            run_retx(R, d, tier, rng)
    elif desc["part"] == "operation":
        for d in desc["drivers"]:
            run_operation(R, d, tier, rng)
    R.exhaustive = False


def replay_c14(case, R):
    if not selftests(R):
        return
    rng = random.Random(0)
    part = case.get("part")
    if part == "command":
        run_command_side(R, case["driver"], "quick", rng, 1, only=(int(case["cmd"]), bytes(case["data"])))
    elif part == "response":
        run_response_side(R, case["driver"], "quick", rng, only=case)
    elif part == "crc":
        import nfc.clf.device as device
        crc_compare(R, case["msg"], device.Device)
    elif part == "crcflip":
        import nfc.clf.device as device
        crc_flips(R, case["msg"], device.Device, rng)
    elif part == "drvcrc":
        run_driver_crc(R, case["driver"], "quick", rng, only=case)
    elif part == "init":
        safe_make(R, case["driver"], "c14")
    elif part == "retx":
        run_retx(R, case["driver"], "quick", rng, only=case)
    elif part == "operation":
        run_operation(R, case["driver"], "quick", rng, only=case)
