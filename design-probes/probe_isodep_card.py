"""ISO-DEP card model (ISO 14443-4 PICC rules) against nfc.tag.tt4.IsoDepInitiator under block-level fault scripts."""
import nfc, nfc.clf, nfc.tag, nfc.tag.tt4 as tt4, itertools, random, collections
class Card:
    def __init__(self, fsc, resp_len_of, wtx_at=()):
        self.fsc=fsc; self.bn=1; self.last=None; self.rx=bytearray(); self.tx=None; self.executed=[]; self.resp_len_of=resp_len_of; self.wtx_at=set(wtx_at); self.nblk=0; self.pending_after_wtx=None
    def chunks(self, data):
        m=self.fsc-3; return [data[i:i+m] for i in range(0,len(data),m)] or [b'']
    def answer_iblock(self):
        # send next chunk of self.tx
        c=self.tx.pop(0); pcb=0x02|self.bn|(0x10 if self.tx else 0)
        return bytes([pcb])+c
    def recv(self, blk):
        self.nblk+=1
        pcb=blk[0]
        if pcb & 0xC0 == 0x00:   # I-block
            self.bn^=1            # rule D
            self.rx+=blk[1:]
            if pcb & 0x10:        # chaining: ack
                out=bytes([0xA2|self.bn])
            else:
                apdu=bytes(self.rx); self.rx=bytearray(); self.executed.append(apdu)
                rsp=apdu[:1]+bytes((apdu[0]+i)&255 for i in range(self.resp_len_of(apdu)))+b'\x90\x00'
                self.tx=self.chunks(rsp); out=self.answer_iblock()
                if len(self.executed) in self.wtx_at:
                    self.pending_after_wtx=out; out=bytes([0xF2,0x02])
            self.last=out; return out
        if pcb & 0xC0 == 0x80:   # R-block
            nak=bool(pcb&0x10); n=pcb&1
            if n==self.bn: return self.last          # rule 11
            if nak: out=bytes([0xA2|self.bn]); self.last_r=out; return out   # rule 12 (R(ACK), not stored as 'last block' per spec? it is)
            # R(ACK) with different number: rule E + 13
            self.bn^=1
            if self.tx: out=self.answer_iblock(); self.last=out; return out
            return None
        if pcb & 0xC0 == 0xC0:   # S-block
            if pcb&0x30==0x30:   # WTX response
                out=self.pending_after_wtx; self.pending_after_wtx=None; self.last=out; return out
        return None
class Clf:
    def __init__(self, card, script): self.card=card; self.script=iter(script); self.sizes=[]; self.nfault=0
    def exchange(self, data, timeout):
        data=bytes(data); self.sizes.append(len(data)+2)
        f=next(self.script,'d')
        if f=='L': self.nfault+=1; raise nfc.clf.TimeoutError          # command lost
        if f=='C': self.nfault+=1; raise nfc.clf.TimeoutError          # command corrupted: card ignores → timeout
        r=self.card.recv(data)
        if r is None: raise nfc.clf.TimeoutError
        if f=='l': self.nfault+=1; raise nfc.clf.TimeoutError          # response lost
        if f=='c': self.nfault+=1; raise nfc.clf.TransmissionError     # response corrupted
        return bytearray(r)
def run(fsc, clen, rlen, script, fwt=0.005, wtx=()):
    card=Card(fsc, lambda a: rlen, wtx); clf=Clf(card, script)
    dep=tt4.IsoDepInitiator(clf, fsc, fwt)
    apdu=bytes([7])+bytes(random.randrange(256) for _ in range(clen-1))
    try:
        r=dep.exchange(apdu, None); out=('ret', bytes(r))
    except tt4.Type4TagCommandError as e: out=('T4err', e.errno)
    except BaseException as e: out=('ESCAPE', type(e).__module__+'.'+type(e).__name__)
    exp=apdu[:1]+bytes((apdu[0]+i)&255 for i in range(rlen))+b'\x90\x00'
    return out, card.executed.count(apdu), exp, clf, apdu
random.seed(3); res=collections.Counter(); bad=[]
for fsc in (16,32,64,256):
    m=fsc-3
    for clen in (1,m-1,m,m+1,2*m+1):
        for rlen in (0,m-3,m-2,m-1,2*m):
            out,nexec,exp,clf,apdu=run(fsc,max(1,clen),max(0,rlen),[])
            assert out==('ret',exp) and nexec==1, (fsc,clen,rlen,out[0],nexec)
            nblk=len(clf.sizes); assert max(clf.sizes)<=fsc
            for pos in range(nblk):
                for f in 'LlcC':
                    out,nexec,exp,clf2,apdu=run(fsc,max(1,clen),max(0,rlen),['d']*pos+[f])
                    key=(f, out[0] if out[0]!='ret' else ('ret-ok' if out[1]==exp else 'ret-WRONG'), 'exec%d'%nexec)
                    res[key]+=1
                    if key[1] in ('ret-WRONG','ESCAPE') or nexec>1 or (key[1]!='ret-ok'): bad.append((fsc,clen,rlen,pos,f,out if out[0]!='ret' else 'ret',nexec))
for k,v in sorted(res.items()): print(k,v)
print('non-recovered or wrong single-fault cases:',len(bad)); print(bad[:12])
out,nexec,exp,clf,apdu=run(64,10,10,['d','l'],wtx=(1,)); print('wtx + lost:',out[0],out[1] if out[0]!='ret' else 'ok', nexec)
try: print(tt4.IsoDepInitiator(Clf(Card(64,lambda a:1),[]),64,0.005).exchange(b'',None))
except BaseException as e: print('empty apdu:',type(e).__name__)
