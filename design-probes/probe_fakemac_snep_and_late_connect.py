import nfc, nfc.dep, nfc.llcp, nfc.llcp.llc as L, nfc.llcp.pdu as pdu, nfc.snep, threading, queue, time, sys
class Pipe:
    def __init__(self): self.i2t=queue.Queue(); self.t2i=queue.Queue(); self.gb={}; self.ev=threading.Event(); self.broken=False
class MacI(nfc.dep.Initiator):
    def __init__(self,pipe): super().__init__(None); self.pipe=pipe
    def activate(self, target=None, **o):
        self.pipe.gb['i']=o.get('gbi'); self.pipe.ev.wait(2); self.rwt=0.001; self.miu=251; return self.pipe.gb['t']
    def exchange(self, data, timeout):
        if self.pipe.broken: raise nfc.clf.TimeoutError
        self.pipe.i2t.put(bytes(data))
        try: return bytearray(self.pipe.t2i.get(timeout=timeout))
        except queue.Empty: raise nfc.clf.TimeoutError
    def deactivate(self, release=True): pass
class MacT(nfc.dep.Target):
    def __init__(self,pipe): super().__init__(None); self.pipe=pipe
    def activate(self, timeout=None, **o):
        self.pipe.gb['t']=o.get('gbt'); 
        while 'i' not in self.pipe.gb: time.sleep(0.001)
        self.pipe.ev.set(); self.rwt=0.001; self.miu=251; return self.pipe.gb['i']
    def exchange(self, data, timeout):
        if data is not None: self.pipe.t2i.put(bytes(data))
        try: return bytearray(self.pipe.i2t.get(timeout=timeout))
        except queue.Empty: raise nfc.clf.TimeoutError
    def deactivate(self, data=None): pass
pipe=Pipe()
a=L.LogicalLinkController(miu=200, lto=200); b=L.LogicalLinkController(miu=300, lto=200)
got=[]
class Srv(nfc.snep.SnepServer):
    def process_snep_request(self, data): got.append(bytes(data)); return super().process_snep_request(data)
srv=Srv(b); srv.start()
ra=[]; 
ta=threading.Thread(target=lambda: (a.activate(MacI(pipe)), a.run())); tb=threading.Thread(target=lambda: (b.activate(MacT(pipe)), b.run()))
ta.start(); tb.start()
while not (a.link.ESTABLISHED and b.link.ESTABLISHED): time.sleep(0.001)
t0=time.time()
c=nfc.snep.SnepClient(a)
import ndef
msg=b''.join(ndef.message_encoder([ndef.Record('urn:nfc:ext:x.y:z','',bytes(1000))]))
print('put', c.put_octets(msg), time.time()-t0, len(got), got[0][6:]==msg)
# break link
pipe.broken=True
ta.join(3); tb.join(3); print('run loops alive', ta.is_alive(), tb.is_alive(), str(a.link), str(b.link))
time.sleep(0.2); print([t.name for t in threading.enumerate()])
# fresh socket after termination
def late():
    try:
        s=nfc.llcp.Socket(a, nfc.llcp.DATA_LINK_CONNECTION); s.connect('urn:nfc:sn:snep'); print('late connect returned')
    except Exception as e: print('late connect raised', repr(e))
th=threading.Thread(target=late, daemon=True); th.start(); th.join(2); print('late thread alive (hang):', th.is_alive())
