"""Tiny T1T model (static Topaz-96 and dynamic 512 B) under nfcpy Type1Tag: round trip, empty message, cut sweep."""
import nfc, nfc.clf, nfc.tag, nfc.tag.tt1, random, collections
class T1Sim:
    def __init__(self, mem, hr, cut=None):
        self.mem=bytearray(mem); self.hr=bytes(hr); self.uid=bytes(self.mem[0:4]); self.cut=cut; self.writes=0; self.dead=False; self.ncmd=0
    def sense(self, t, **kw): return None if self.dead else t
    def _w(self):
        if self.cut is not None and self.writes==self.cut: self.dead=True; raise nfc.clf.TimeoutError
        self.writes+=1
    def exchange(self, d, timeout):
        if self.dead: raise nfc.clf.TimeoutError
        d=bytes(d); c=d[0]; self.ncmd+=1
        if c==0x78: return bytearray(self.hr+self.uid)
        if c==0x00: return bytearray(self.hr+self.mem[0:120])
        if c==0x01: return bytearray([d[1],self.mem[d[1]]])
        if c in (0x53,0x1A):
            self._w(); a=d[1]; self.mem[a]= d[2] if c==0x53 else (self.mem[a]|d[2]); return bytearray([a,self.mem[a]])
        if c==0x10:
            seg=d[1]>>4
            if seg*128>=len(self.mem): raise nfc.clf.TimeoutError
            return bytearray([d[1]])+self.mem[seg*128:seg*128+128]
        if c==0x02:
            b=d[1]
            if b*8>=len(self.mem): raise nfc.clf.TimeoutError
            return bytearray([b])+self.mem[b*8:b*8+8]
        if c in (0x54,0x1B):
            b=d[1]
            if b*8>=len(self.mem): raise nfc.clf.TimeoutError
            self._w(); new=d[2:10]
            self.mem[b*8:b*8+8]= new if c==0x54 else bytes(x|y for x,y in zip(self.mem[b*8:b*8+8],new))
            return bytearray([b])+self.mem[b*8:b*8+8]
        raise nfc.clf.TimeoutError
def target(hr): 
    return nfc.clf.RemoteTarget('106A', sens_res=bytearray(b'\x00\x0c'), rid_res=bytearray(hr)+bytearray(b'\x01\x02\x03\x04'))
def mk(dynamic, old, nulls=0):
    size=512 if dynamic else 120
    mem=bytearray(random.randrange(256) for _ in range(size)); mem[0:8]=b'\x01\x02\x03\x04\x05\x06\x07\x00'
    mem[8:12]=bytes([0xE1,0x10,size//8-1,0])
    body=bytes(nulls)
    if dynamic: body+=bytes.fromhex('0103F230330203F00203')
    body+= (bytes([3,len(old)]) if len(old)<255 else b'\x03\xff'+len(old).to_bytes(2,'big'))
    # place with skipping 104..127
    p=12
    for b in body: mem[p]=b; p+=1
    for b in old:
        while 104<=p<128: p+=1
        mem[p]=b; p+=1
    while 104<=p<128: p+=1
    if p<size: mem[p]=0xFE
    return mem
def read(mem,hr):
    s=T1Sim(mem,hr); t=nfc.tag.activate(s,target(hr)); n=t.ndef
    return None if n is None else n.octets
random.seed(2)
for dyn,hr in ((False,b'\x11\x48'),(True,b'\x12\x4c')):
    old=bytes(random.randrange(256) for _ in range(40))
    mem=mk(dyn,old); s=T1Sim(mem,hr); t=nfc.tag.activate(s,target(hr)); print(type(t).__name__,'cap',t.ndef.capacity,'read ok',t.ndef.octets==old)
    for ln in (1,t.ndef.capacity):
        new=bytes(random.randrange(256) for _ in range(ln)); t.ndef.octets=new; print(' write',ln,'roundtrip',read(s.mem,hr)==new)
    try: t.ndef.octets=b''; print(' empty ok')
    except Exception as e: print(' EMPTY:',type(e).__name__)
# cut sweep, dynamic, long message, all alignments
out=collections.Counter()
for dyn,hr in ((True,b'\x12\x4c'),):
  for nulls in range(8):
    old=bytes(random.randrange(256) for _ in range(300)); new=bytes([0xAA])*280
    for cut in range(0,200):
        s=T1Sim(mk(dyn,old,nulls),hr,cut=cut); t=nfc.tag.activate(s,target(hr))
        assert t.ndef.octets==old
        try: t.ndef.octets=new
        except nfc.tag.TagCommandError: pass
        r=read(s.mem,hr)
        k='old' if r==old else 'new' if r==new else 'empty' if r==b'' else 'none' if r is None else 'MIXED len %d'%len(r)
        out[(nulls,k)]+=1
        if not s.dead: break
for k,v in sorted(out.items()): 
    if 'MIXED' in k[1]: print(k,v)
print('dynamic: outcomes', collections.Counter(k[1].split()[0] for k in out.elements()))
# static memory long? capacity 90 -> short only; test short->short cuts
out=collections.Counter()
for cut in range(0,120):
    old=bytes(range(50)); new=bytes([0x55])*80
    s=T1Sim(mk(False,old),b'\x11\x48',cut=cut); t=nfc.tag.activate(s,target(b'\x11\x48'))
    try: t.ndef.octets=new
    except nfc.tag.TagCommandError: pass
    r=read(s.mem,b'\x11\x48'); out['old' if r==old else 'new' if r==new else 'empty' if r==b'' else 'none' if r is None else 'MIXED']+=1
    if not s.dead: break
print('static:',dict(out))
