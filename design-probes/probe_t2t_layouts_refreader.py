import random, nfc, nfc.clf, nfc.tag.tt2
exec(open(__import__('os').path.join(__import__('os').path.dirname(__file__),'probe_t2t_empty_and_cut.py')).read().split("# 1. empty message")[0])
def build(n_data, tlvs_before, old):
    # returns mem, ndef_off, reserved set
    mem=bytearray(random.randrange(256) for _ in range(16+n_data+32))
    mem[0:10]=bytes(range(1,11)); mem[10:12]=b'\0\0'; mem[12:16]=bytes([0xE1,0x10,n_data//8,0])
    off=16; reserved=set()
    for t in tlvs_before:
        if t[0]=='null': mem[off]=0; off+=1
        else:
            kind,start,size=t   # 'lock' size in bits, 'mem' size bytes
            page_size_exp=4; psize=16; pa=start//psize; bo=start%psize
            assert pa<16
            mem[off:off+5]=bytes([1 if kind=='lock' else 2,3,(pa<<4)|bo,size&255,page_size_exp]); off+=5
            n=(size+7)//8 if kind=='lock' else size
            reserved|=set(range(start,start+n))
    ndef_off=off
    # place old message with skipping
    def place(off,data):
        body=(bytes([len(data)]) if len(data)<255 else b'\xff'+len(data).to_bytes(2,'big'))
        mem[off]=3; p=off+1
        for b in body: mem[p]=b; p+=1
        for b in data:
            while p in reserved: p+=1
            mem[p]=b; p+=1
        while p in reserved: p+=1
        if p<16+n_data: mem[p]=0xFE
    place(ndef_off, old)
    return mem, ndef_off, reserved
def ref_read(mem, n_data):
    off=16; res=set()
    while off<16+n_data:
        if off in res: off+=1; continue
        t=mem[off]
        if t==0: off+=1; continue
        if t==0xFE: return None
        l=mem[off+1]; p=off+2
        if l==255: l=int.from_bytes(mem[off+2:off+4],'big'); p=off+4
        if t==3:
            out=bytearray()
            while len(out)<l:
                if p not in res: out.append(mem[p])
                p+=1
            return bytes(out)
        v=mem[p:p+l]
        if t in (1,2) and l==3:
            start=(v[0]>>4)*(2**(v[2]&15))+(v[0]&15); n=v[1] or 256
            n=(n+7)//8 if t==1 else n
            res|=set(range(start,start+n))
        off=p+l
random.seed(5); bad=0; N=600; eff=0; inside=0
for it in range(N):
    n_data=random.choice([48,64,128,240,496,872])
    tl=[]
    for _ in range(random.randrange(0,3)): tl.append(('null',))
    nctl=random.randrange(0,3)
    base=16+len(tl)+5*nctl+4
    for _ in range(nctl):
        kind=random.choice(['lock','mem'])
        start=random.choice([random.randrange(base+1, min(16+n_data,255)), 16+n_data, min(250,16+n_data-2)])
        start=min(start,255)
        size=random.choice([1,2,3,8,16]) 
        tl.append((kind,start,size))
    random.shuffle(tl)
    old=bytes(random.randrange(256) for _ in range(random.choice([0,1,5,20])))
    try: mem,noff,rsv=build(n_data,tl,old)
    except AssertionError: continue
    # exclude reserved on ndef T/L bytes and on control TLVs
    if any(x in rsv for x in range(16,noff+4)): continue
    s=T2Sim(mem); t=nfc.tag.tt2.Type2Tag(s,s.target); nd=t.ndef
    eff+=1; inside+= any(noff<x<16+n_data for x in rsv)
    if nd is None or nd.octets!=old or ref_read(mem,n_data)!=old:
        bad+=1; print('READ MISMATCH',tl,n_data,nd and nd.octets.hex(),old.hex(), ref_read(mem,n_data)); continue
    avail=len(set(range(noff,16+n_data))-rsv)
    refcap = avail-4 if avail-4>=255 else min(avail-2,254)
    if nd.capacity>refcap: bad+=1; print('CAP',nd.capacity,refcap,tl,n_data)
    for ln in {1,nd.capacity,max(1,nd.capacity-1),min(nd.capacity,255),min(nd.capacity,254)}:
        new=bytes(random.randrange(256) for _ in range(ln))
        before=bytes(s.mem)
        t.ndef.octets=new
        r=ref_read(s.mem,n_data); r2=read(s.mem)
        if r!=new or r2!=new: bad+=1; print('RT',ln,tl,n_data,noff,r and len(r),r2 and len(r2)); break
        ch=[i for i in range(len(before)) if before[i]!=s.mem[i]]
        outside=[i for i in ch if i<noff or i>=16+n_data or i in rsv]
        if outside: bad+=1; print('OUTSIDE',outside[:5],tl,n_data,noff,ln); break
print("bad",bad,"effective",eff,"with reserved inside data area",inside)
