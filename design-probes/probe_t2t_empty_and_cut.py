import nfc, nfc.clf, nfc.tag, nfc.tag.tt2
class Cut(Exception): pass
class T2Sim:
    def __init__(self, mem, cut=None):
        self.mem=bytearray(mem); self.target=nfc.clf.RemoteTarget('106A', sens_res=bytearray(b'\x44\x00'), sel_res=bytearray(b'\x00'), sdd_res=bytearray(b'\x01\x02\x03\x04\x05\x06\x07'))
        self.writes=0; self.cut=cut; self.dead=False; self.log=[]
    def sense(self, target, **kw):
        return None if self.dead else target
    def exchange(self, data, timeout):
        if self.dead: raise nfc.clf.TimeoutError
        data=bytes(data); self.log.append(data)
        if data[0]==0x30:
            a=data[1]*4
            if a>=len(self.mem): return bytearray([0x00])
            d=self.mem[a:a+16]; d=d+self.mem[:16-len(d)]
            return bytearray(d)
        if data[0]==0xA2:
            if self.cut is not None and self.writes==self.cut:
                self.dead=True; raise nfc.clf.TimeoutError
            a=data[1]*4
            if a>=len(self.mem): return bytearray([0x00])
            self.mem[a:a+4]=data[2:6]; self.writes+=1
            return bytearray([0x0A])
        raise nfc.clf.TimeoutError
def mk(n_data, ndef=b'', off=0):
    mem=bytearray(16+n_data)
    mem[0:10]=bytes(range(1,11)); mem[12:16]=bytes([0xE1,0x10,n_data//8,0])
    body=bytes(off)+ (bytes([3,len(ndef)]) if len(ndef)<255 else bytes([3,255,len(ndef)>>8,len(ndef)&255]))+ndef+b'\xfe'
    mem[16:16+len(body)]=body
    return mem
def read(mem):
    s=T2Sim(mem); t=nfc.tag.tt2.Type2Tag(s, s.target); n=t.ndef
    return None if n is None else n.octets
# 1. empty message
s=T2Sim(mk(496,b'hello')); t=nfc.tag.tt2.Type2Tag(s,s.target)
print('cap',t.ndef.capacity, t.ndef.octets)
try:
    t.ndef.octets=b''
    print('empty ok', read(s.mem))
except Exception as e: print('EMPTY WRITE', type(e), e)
# 2. interrupted write of 300 bytes, offset 1 => TLV at 17, length field 18,19,20 -> page 4 holds 16..19, page 5 holds 20..
old=bytes(range(256))+bytes(44)
new=bytes([0xAA])*280
for off in (0,1,2,3):
  bad=0
  for cut in range(0,200):
    s=T2Sim(mk(496,old,off),cut=cut); t=nfc.tag.tt2.Type2Tag(s,s.target)
    assert t.ndef.octets==old
    try: t.ndef.octets=new
    except nfc.tag.TagCommandError as e: pass
    r=read(s.mem)
    if r not in (None,b'',old,new):
        bad+=1; print('off',off,'cut',cut,'len',len(r), r[:4].hex())
    if not s.dead: break
  print('off',off,'bad',bad,'writes',s.writes)
