import nfc, nfc.clf, nfc.clf.pn533 as pn533, errno, os, time
ACK=bytes.fromhex('0000ff00ff00')
def frame(data):
    data=bytes(data)
    if len(data)<255: head=b'\x00\x00\xff'+bytes([len(data),(256-len(data))&255])
    else: head=b'\x00\x00\xff\xff\xff'+len(data).to_bytes(2,'big'); head+=bytes([(256-sum(head[-2:]))&255])
    return head+data+bytes([(256-sum(data))&255,0])
class Sim:
    TYPE='USB'; manufacturer_name='x'; product_name='y'
    def __init__(self): self.q=[]; self.log=[]; self.regs={}; self.script={}; self.n=0
    def write(self, f):
        f=bytes(f); self.log.append(f)
        if f==ACK: self.q=[]; return
        # parse
        assert f[:3]==b'\x00\x00\xff'
        if f[3:5]==b'\xff\xff': ln=int.from_bytes(f[5:7],'big'); body=f[8:8+ln]
        else: ln=f[3]; body=f[5:5+ln]
        assert body[0]==0xD4; cmd=body[1]; data=body[2:]
        self.n+=1
        act=self.script.get(self.n)
        rsp=self.handle(cmd,data)
        if act is not None: rsp=act(cmd,rsp)
        self.q=[ACK]+([rsp] if rsp is not None else [])
    def handle(self, cmd, data):
        D=lambda b: frame(bytes([0xD5,cmd+1])+bytes(b))
        if cmd==0x00: return D(data) if data[0]==0 else D(b'\0')
        if cmd==0x02: return D(bytes([0x33,2,7,7]))
        if cmd==0x06:
            n=len(data)//2
            if int.from_bytes(data[0:2],'big')>=0xA000: return D(b'\x01')
            return D(b'\0'+bytes(self.regs.get(int.from_bytes(data[i*2:i*2+2],'big'),0) for i in range(n)))
        if cmd==0x08:
            for i in range(0,len(data),3): self.regs[int.from_bytes(data[i:i+2],'big')]=data[i+2]
            return D(b'\0')
        if cmd in (0x12,0x32): return D(b'')
        if cmd==0x4A: return D(bytes([1,1,0x00,0x44,0x00,7,1,2,3,4,5,6,7]))   # T2T-like
        if cmd==0x42: return D(bytes([0])+bytes(16)+b'\x00\x00')  # wrong crc intentionally? compute below
        return D(b'\0')
    def read(self, timeout):
        if not self.q: raise IOError(errno.ETIMEDOUT, 'timeout')
        return bytearray(self.q.pop(0))
    def close(self): pass
sim=Sim(); dev=pn533.init(sim)
clf=nfc.ContactlessFrontend(); clf.device=dev
t=clf.sense(nfc.clf.RemoteTarget('106A')); print('target',t)
base=sim.n
def crc_a(d):
    reg=0x6363
    for o in d:
        for p in range(8):
            bit=(reg^((o>>p)&1))&1; reg>>=1
            if bit: reg^=0x8408
    return bytes([reg&255,reg>>8])
def ok42(cmd,rsp):
    d=bytes(16); return frame(bytes([0xD5,0x43,0])+d+crc_a(d))
# reference exchange: count host commands
sim.script={}; n0=sim.n
class Always(dict):
    def get(self,k,default=None): return None
orig=sim.handle
def handle(cmd,data):
    if cmd==0x42: d=bytes(16); return frame(bytes([0xD5,0x43,0])+d+crc_a(d))
    return orig(cmd,data)
sim.handle=handle
r=clf.exchange(b'\x30\x00',0.1); ncmds=sim.n-n0; print('ref exchange ->',len(r),'host cmds',ncmds)
import collections; out=collections.Counter()
def trial(k, act, label):
    sim.script={sim.n+k:act}
    try: r=clf.exchange(b'\x30\x00',0.1); out[(label,k,'ret')]+=1
    except nfc.clf.CommunicationError as e: out[(label,k,type(e).__name__)]+=1
    except IOError as e: out[(label,k,'IOError')]+=1
    except BaseException as e: out[(label,k,'ESCAPE '+type(e).__module__+'.'+type(e).__qualname__)]+=1
for k in range(1,ncmds+1):
    trial(k, lambda cmd,rsp: frame(bytes([0x7f])), 'errframe')
    trial(k, lambda cmd,rsp: None, 'silent')
    trial(k, lambda cmd,rsp: frame(bytes([0xD5,cmd+1,0x13])), 'status13')
    trial(k, lambda cmd,rsp: frame(bytes([0xD5,cmd+1])), 'nostatus')
    trial(k, lambda cmd,rsp: b'\x00\x00\xff', 'trunc3')
    trial(k, lambda cmd,rsp: rsp[:-2]+bytes([(rsp[-2]-5)&255,5]), 'dcs+post')
for k,v in sorted(out.items()): print(k,v)
