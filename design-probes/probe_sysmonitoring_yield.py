import sys, time, random, threading
import nfc, nfc.dep, nfc.llcp, nfc.llcp.llc as L, nfc.snep, queue, ndef
exec(open(__import__('os').path.join(__import__('os').path.dirname(__file__),'probe_fakemac_snep_and_late_connect.py')).read().split("pipe=Pipe()")[0])
mon=sys.monitoring; TOOL=3; mon.use_tool_id(TOOL,'vf')
rng=random.Random(1); cnt={}; switches=[0]; last=[None]; sig=[0]
def on_line(code, line):
    if '/nfc/llcp/' not in code.co_filename:
        return mon.DISABLE
    t=threading.get_ident(); cnt[t]=cnt.get(t,0)+1
    if last[0]!=t:
        switches[0]+=1; sig[0]=hash((sig[0],threading.current_thread().name,code.co_name,line)); last[0]=t
    r=rng.random()
    if r<0.02: time.sleep(0)
    elif r<0.022: time.sleep(0.0002)
mon.register_callback(TOOL, mon.events.LINE, on_line); mon.set_events(TOOL, mon.events.LINE)
pipe=Pipe()
a=L.LogicalLinkController(miu=200, lto=500); b=L.LogicalLinkController(miu=300, lto=500)
got=[]
class Srv(nfc.snep.SnepServer):
    def process_snep_request(self, data): got.append(bytes(data)); return super().process_snep_request(data)
Srv(b).start()
ta=threading.Thread(target=lambda: (a.activate(MacI(pipe)), a.run()),name='runA'); tb=threading.Thread(target=lambda: (b.activate(MacT(pipe)), b.run()),name='runB')
ta.start(); tb.start()
while not (a.link.ESTABLISHED and b.link.ESTABLISHED): time.sleep(0.001)
t0=time.time()
msg=b''.join(ndef.message_encoder([ndef.Record('urn:nfc:ext:x.y:z','',bytes(3000))]))
c=nfc.snep.SnepClient(a)
print('put', c.put_octets(msg), round(time.time()-t0,3), got[0][6:]==msg)
pipe.broken=True; ta.join(5); tb.join(5)
mon.set_events(TOOL,0)
print('events',sum(cnt.values()),'threads',len(cnt),'switches',switches[0],'sig',sig[0]&0xffffffff, [t.name for t in threading.enumerate()])
