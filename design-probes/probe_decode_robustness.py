import nfc, nfc.llcp.pdu as pdu, nfc.dep, nfc.clf, struct, sys, traceback
def t(name, f):
    try: r=f(); print(name,'->',type(r).__name__)
    except BaseException as e: print(name,'RAISES',type(e).__module__+'.'+type(e).__name__, str(e)[:60])
# nested AGF
b=b'\x00\x00'
for i in range(530): b=b'\x00\x80'+struct.pack('>H',len(b))+b
print(len(b)); t('nested agf', lambda: pdu.decode(b))
# TLV reading beyond sub-PDU
inner=bytes([0x11,0x20])+bytes([2,2])   # CONNECT dsap4 ssap32 with MIUX TLV L=2 but truncated
agf=b'\x00\x80'+struct.pack('>H',len(inner))+inner+struct.pack('>H',2)+b'\x07\xff'
t('agf tlv overrun', lambda: print(pdu.decode(agf)) )
t('connect rw0', lambda: print(pdu.decode(pdu.Connect(4,32,rw=0).encode()).rw, len(pdu.Connect(4,32,rw=0)), len(pdu.Connect(4,32,rw=0).encode())))
clf=nfc.ContactlessFrontend()
ini=nfc.dep.Initiator(clf); ini.target=nfc.clf.RemoteTarget('212F')
t('dep 3-byte atr_res', lambda: ini.decode_frame(bytearray(b'\x04\xd5\x01\x00')))
t('dep empty', lambda: ini.decode_frame(bytearray(b'')))
t('dep psl long', lambda: ini.decode_frame(bytearray(b'\x05\xd5\x05\x00\x00')))
ini.target=nfc.clf.RemoteTarget('106A')
t('dep 106 one byte', lambda: ini.decode_frame(bytearray(b'\xf0')))
