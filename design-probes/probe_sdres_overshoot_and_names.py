import nfc, nfc.dep, nfc.llcp, nfc.llcp.llc as L, nfc.llcp.pdu as pdu, errno
class Mac(nfc.dep.Initiator):
    def __init__(self, gb): super().__init__(None); self.gb=gb
    def activate(self, target=None, **o): self.rwt=0.001; self.miu=251; return self.gb
def mk(peer_miu, **opt):
    pax=pdu.ParameterExchange(); pax.version=(1,3); pax.miu=peer_miu; pax.lto=500; pax.lsc=3; pax.wks=0x13
    gb=b'Ffm'+pdu.encode(pax)[2:]
    llc=L.LogicalLinkController(**opt); assert llc.activate(Mac(gb)); return llc
# C10: SDRES overshoot
for miu in (128,129,130,131,132):
    llc=mk(miu)
    snl=pdu.ServiceNameLookup(1,1,sdreq=[(i,b'urn:nfc:sn:x%d'%i) for i in range(60)])
    llc.dispatch(snl)
    p=llc.collect(); enc=pdu.encode(p)
    print('miu',miu,p.name,'info',len(enc)-2, 'EXCEEDS' if len(enc)-2>miu else 'ok')
# C17: name outlives socket
llc=mk(200)
s=nfc.llcp.Socket(llc, nfc.llcp.DATA_LINK_CONNECTION); s.bind('urn:nfc:sn:foo'); a=s.getsockname(); s.close()
print('addr',a,'sap after close',llc.sap[a],'snl',llc.snl)
llc.dispatch(pdu.ServiceNameLookup(1,1,sdreq=[(7,b'urn:nfc:sn:foo')])); print(llc.collect())
s2=nfc.llcp.Socket(llc, nfc.llcp.DATA_LINK_CONNECTION)
try: s2.bind('urn:nfc:sn:foo'); print('rebind ok', s2.getsockname())
except nfc.llcp.Error as e: print('rebind', e)
# wks overwrite
r=nfc.llcp.Socket(llc, L.RAW_ACCESS_POINT); r.bind(4); s3=nfc.llcp.Socket(llc, nfc.llcp.DATA_LINK_CONNECTION)
try: s3.bind('urn:nfc:sn:snep'); print('snep bound at', s3.getsockname(), 'raw still at', r.getsockname(), llc.sap[4].sock_list)
except nfc.llcp.Error as e: print('bind snep', e)
