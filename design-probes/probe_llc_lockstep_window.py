import nfc, nfc.dep, nfc.llcp, nfc.llcp.llc as L, nfc.llcp.pdu as pdu, nfc.llcp.tco as tco, threading, time, random, errno, sys
class Mac(nfc.dep.Initiator):
    def __init__(self, gb): super().__init__(None); self.gb=gb
    def activate(self, target=None, **o): self.rwt=0.001; self.miu=251; self.mygb=o.get('gbi'); return self.gb
def gb_for(miu, lto=500):
    pax=pdu.ParameterExchange(); pax.version=(1,3); pax.miu=miu; pax.lto=lto; pax.lsc=3; pax.wks=0x13
    return b'Ffm'+pdu.encode(pax)[2:]
def pair(miuA, miuB, agf):
    a=L.LogicalLinkController(miu=miuA, agf=agf); b=L.LogicalLinkController(miu=miuB, agf=agf)
    assert a.activate(Mac(gb_for(miuB))) and b.activate(Mac(gb_for(miuA)))
    return a,b
def flat(p): 
    if p is None: return []
    return [q for x in p for q in flat(x)] if p.name=='AGF' else [p]
class Wire:
    def __init__(self): self.log=[]
def turn(src, dst, wire, tag):
    p=src.collect()
    if p is None: return 0
    enc=pdu.encode(p); info=len(enc)-p.header_size
    assert info <= src.cfg['send-miu'], ('MIU exceeded',tag,info,src.cfg['send-miu'],str(p)[:80])
    q=pdu.decode(enc)
    for x in flat(q): wire.log.append((tag,x))
    dst.dispatch(q); return 1
def run(seed, steps=3000):
    rng=random.Random(seed)
    miuA=rng.choice([128,129,200,248,1000,2175]); miuB=rng.choice([128,130,200,248,1000,2175]); agf=rng.random()<0.7
    a,b=pair(miuA,miuB,agf); wire=Wire()
    rwA=rng.randrange(1,16); rwB=rng.randrange(1,16); smA=rng.choice([128,140,miuA]); smB=rng.choice([128,150,miuB])
    srv=nfc.llcp.Socket(b, nfc.llcp.DATA_LINK_CONNECTION); srv.setsockopt(nfc.llcp.SO_RCVMIU, smB); srv.setsockopt(nfc.llcp.SO_RCVBUF, rwB); srv.bind(40); srv.listen(1)
    cli=nfc.llcp.Socket(a, nfc.llcp.DATA_LINK_CONNECTION); cli.setsockopt(nfc.llcp.SO_RCVMIU, smA); cli.setsockopt(nfc.llcp.SO_RCVBUF, rwA)
    th=threading.Thread(target=lambda: cli.connect(40)); th.start()
    acc=[]
    ta=threading.Thread(target=lambda: acc.append(srv.accept())); ta.start()
    for i in range(200):
        turn(a,b,wire,'A>'); turn(b,a,wire,'B>')
        if not th.is_alive() and not ta.is_alive(): break
        time.sleep(0.001)
    th.join(1); ta.join(1); assert acc, 'no accept'
    s=acc[0]
    ends={'A':cli,'B':s}; sent={'A':[], 'B':[]}; rcvd={'A':[], 'B':[]}; ctr={'A':0,'B':0}
    stats={'send_ok':0,'wouldblock':0,'recv':0,'busy':0}
    for step in range(steps):
        op=rng.random(); e=rng.choice('AB'); o='B' if e=='A' else 'A'
        if op<0.35:
            miu=ends[e].getsockopt(nfc.llcp.SO_SNDMIU)
            n=rng.choice([0,1,miu-1,miu,rng.randrange(0,miu+1)])
            msg=ctr[e].to_bytes(4,'big')+bytes(max(0,n-4)) if n>=4 else bytes([ctr[e]&255])*n
            try:
                ok=ends[e].send(msg, nfc.llcp.MSG_DONTWAIT)
                if ok: sent[e].append(msg); ctr[e]+=1; stats['send_ok']+=1
            except nfc.llcp.Error as err:
                assert err.errno in (errno.EWOULDBLOCK,), err; stats['wouldblock']+=1
        elif op<0.65:
            if ends[e].poll('recv',0):
                m=ends[e].recv(); rcvd[e].append(m); stats['recv']+=1
        elif op<0.70:
            ends[e].setsockopt(nfc.llcp.SO_RCVBSY, rng.random()<0.5); stats['busy']+=1
        else:
            turn(a,b,wire,'A>'); turn(b,a,wire,'B>')
    # drain
    for e in 'AB': ends[e].setsockopt(nfc.llcp.SO_RCVBSY, False)
    for i in range(400):
        turn(a,b,wire,'A>'); turn(b,a,wire,'B>')
        for e in 'AB':
            while ends[e].poll('recv',0): rcvd[e].append(ends[e].recv())
    okA = rcvd['B']==sent['A']; okB = rcvd['A']==sent['B']
    # window model on wire
    viol=[]
    for d,peer_rw in (('A>',rwB),('B>',rwA)):
        rev='B>' if d=='A>' else 'A>'
        last_nr=0; exp_ns=0; maxout=0
        for tag,x in wire.log:
            if tag==d and x.name=='I':
                if x.ns!=exp_ns: viol.append(('ns',d,x.ns,exp_ns))
                exp_ns=(exp_ns+1)%16
                out=(exp_ns-last_nr)%16; maxout=max(maxout,out)
                if out>peer_rw or out==0: viol.append(('window',d,out,peer_rw))
            if tag==rev and x.name in ('I','RR','RNR'):
                adv=(x.nr-last_nr)%16
                if adv>(exp_ns-last_nr)%16: viol.append(('nr ahead',rev,x.nr,last_nr,exp_ns))
                last_nr=x.nr
        stats['maxout'+d]=(maxout,peer_rw)
    stats['I']=sum(1 for t,x in wire.log if x.name=='I'); stats['RR']=sum(1 for t,x in wire.log if x.name=='RR'); stats['RNR']=sum(1 for t,x in wire.log if x.name=='RNR'); stats['FRMR']=sum(1 for t,x in wire.log if x.name=='FRMR')
    return okA,okB,viol,stats,(miuA,miuB,agf,rwA,rwB,smA,smB), (len(sent['A']),len(rcvd['B']),len(sent['B']),len(rcvd['A']))
bad=0; t0=time.time()
for seed in range(int(sys.argv[1]) if len(sys.argv)>1 else 20):
    try:
        okA,okB,viol,stats,cfg,cnt=run(seed)
        if not(okA and okB) or viol or stats['FRMR']:
            bad+=1; print('seed',seed,okA,okB,viol[:3],cfg,cnt,stats)
        elif seed<3: print('seed',seed,'ok',cfg,cnt,stats)
    except AssertionError as e:
        bad+=1; print('seed',seed,'ASSERT',e)
print('bad',bad,'time',round(time.time()-t0,1))
