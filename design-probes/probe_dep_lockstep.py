import nfc, nfc.dep, nfc.clf, threading, time as _time, sys, itertools, random
# ---- virtual clock
class VClock:
    def __init__(self): self.now=1000.0
    def time(self): return self.now
    def sleep(self, s): self.now+=s
vc=VClock()
nfc.dep.time=vc
class Air:
    """strict hand-off between initiator thread and target thread"""
    def __init__(self, script):
        self.cv=threading.Condition(); self.turn='T'  # target first waits
        self.req=None; self.res=None; self.script=iter(script); self.log=[]; self.ini_done=False
        self.t_waiting=False; self.pending_req=None; self.pending_res=None
    def fault(self):
        return next(self.script, 'd')
class IniClf:
    def __init__(self, air): self.air=air
    def exchange(self, data, timeout):
        a=self.air
        f=a.fault(); a.log.append(('I>',bytes(data),f))
        with a.cv:
            if f=='l':
                vc.now+=timeout; raise nfc.clf.TimeoutError
            # deliver (maybe corrupt) to target: wait until target is waiting
            while not a.t_waiting and not a.t_dead: a.cv.wait()
            if a.t_dead: vc.now+=timeout; raise nfc.clf.TimeoutError
            a.pending_req=(bytearray(data), f=='c'); a.t_waiting=False; a.pending_res=None; a.res_ready=False
            a.cv.notify_all()
            while not a.res_ready: a.cv.wait()
            r=a.pending_res
            if r is None:   # target stayed silent (will wait again) or died
                vc.now+=timeout; raise nfc.clf.TimeoutError
            data,f2=r
            if f2=='l': vc.now+=timeout; raise nfc.clf.TimeoutError
            if f2=='c': raise nfc.clf.TransmissionError
            return bytearray(data)
class TgtClf:
    def __init__(self, air): self.air=air
    def exchange(self, data, timeout):
        a=self.air
        with a.cv:
            if data is not None:
                f=a.fault(); a.log.append(('T>',bytes(data),f))
                a.pending_res=(bytes(data),f)
            else:
                a.pending_res=None
            a.res_ready=True; a.t_waiting=True; a.cv.notify_all()
            while a.pending_req is None and not a.ini_done: a.cv.wait()
            if a.pending_req is None:
                vc.now+=timeout; raise nfc.clf.TimeoutError
            d,c=a.pending_req; a.pending_req=None
            if c: raise nfc.clf.TransmissionError
            return d
def run(script, n_ex=3, size_i=300, size_t=300, lri=3, lrt=3, did=None, brty='212F'):
    air=Air(script); air.t_dead=False; air.res_ready=False
    ini=nfc.dep.Initiator(IniClf(air)); tgt=nfc.dep.Target(TgtClf(air))
    ini.target=nfc.clf.RemoteTarget(brty); tgt.target=nfc.clf.LocalTarget(brty)
    lr=(64,128,192,254)
    ini.did=did; ini.nad=None; ini.miu=lr[lrt]-3-(did is not None); ini.pni=0; ini.rwt=0.01
    tgt.did=did; tgt.nad=None; tgt.miu=lr[lri]-3; tgt.pni=None; tgt.rwt=0.01; tgt.cmd=None
    sent_i=[bytes([k])+bytes(random.randrange(256) for _ in range(size_i-1)) for k in range(n_ex)]
    sent_t=[bytes([k+100])+bytes(random.randrange(256) for _ in range(size_t-1)) for k in range(n_ex)]
    got_t=[]; got_i=[]; res={}
    def tmain():
        try:
            # first: wait for first request
            r=None; k=0
            d=tgt.send_dep_res_recv_dep_req  # not used
            send=None
            # emulate: first call receives without sending
            pass
            req=tgt.exchange.__func__  # placeholder
        except Exception as e: pass
        try:
            data=None
            k=0
            # first receive: use internal path: cmd is None so exchange requires send_data; work around by priming cmd via first frame
            with air.cv:
                air.res_ready=True; air.t_waiting=True; air.cv.notify_all()
                while air.pending_req is None and not air.ini_done: air.cv.wait()
                if air.pending_req is None: return
                d0,c0=air.pending_req; air.pending_req=None
            tgt.cmd=d0 if not c0 else None
            if tgt.cmd is None: res['t']='firstcorrupt'; return
            rcv=tgt.exchange(None, 1.0)
            while rcv is not None:
                got_t.append(bytes(rcv))
                rcv=tgt.exchange(sent_t[k], 1.0); k+=1
                if k>=n_ex:
                    if rcv is not None: got_t.append(bytes(rcv))
                    break
            res['t']='ok' if rcv is not None else 'none'
        except nfc.clf.CommunicationError as e: res['t']=type(e).__name__
        except Exception as e: res['t']='EXC '+repr(e)
        finally:
            with air.cv: air.t_dead=True; air.pending_res=None; air.res_ready=True; air.cv.notify_all()
    def imain():
        try:
            for k in range(n_ex):
                r=ini.exchange(sent_i[k], 1.0); got_i.append(bytes(r))
            res['i']='ok'
        except nfc.clf.CommunicationError as e: res['i']=type(e).__name__
        except Exception as e: res['i']='EXC '+repr(e)
        finally:
            with air.cv: air.ini_done=True; air.cv.notify_all()
    tt=threading.Thread(target=tmain); ti=threading.Thread(target=imain)
    tt.start(); ti.start(); ti.join(10); tt.join(10)
    return res, sent_i, got_t, sent_t, got_i, air.log, ti.is_alive() or tt.is_alive()
if __name__=='__main__':
    random.seed(1)
    res,si,gt,st,gi,log,hung=run([], n_ex=3)
    print(res, len(log), [len(x) for x in gt], gt==si, gi==st[:len(gi)], hung)
    # single fault at each frame position
    n=len(log); bad=0
    for pos in range(1,n):   # skip first frame (our priming hack)
        for f in 'lc':
            script=['d']*pos+[f]
            res,si,gt,st,gi,log2,hung=run(script, n_ex=3)
            ok = res.get('i')=='ok' and gt[:3]==si and gi==st
            if not ok or hung:
                bad+=1; print('pos',pos,f,res,len(gt),len(gi),hung, [ (d,hexs[:12].hex(),ff) for d,hexs,ff in log2[max(0,pos-2):pos+4]])
    print('frames',n,'bad',bad)
    # DID frame size check
    res,si,gt,st,gi,log,hung=run([], n_ex=2, did=1, lri=0, lrt=0, size_i=100,size_t=100)
    print(res, 'max I>', max(len(b) for d,b,f in log if d=='I>'), 'max T>', max(len(b) for d,b,f in log if d=='T>'), 'LR 64 => max frame len 65')
