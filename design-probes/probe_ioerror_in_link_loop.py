"""IOError from the MAC inside llc.run(): are blocked socket calls released, does run() return?"""
import nfc, nfc.dep, nfc.llcp, nfc.llcp.llc as L, threading, queue, time, os, errno
exec(open(os.path.join(os.path.dirname(__file__),'probe_fakemac_snep_and_late_connect.py')).read().split("pipe=Pipe()")[0])
class DeadClf:
    def exchange(self, data, timeout): raise IOError(errno.ENODEV, 'device gone')
class MacIO(MacI):
    pass
def swap_in_real_initiator(llc):
    # llc.terminate() tests `type(self.mac) == nfc.dep.Initiator` (exact type), so a fake MAC subclass would
    # skip deactivation; use a real Initiator on a frontend whose device is gone.
    real=nfc.dep.Initiator(DeadClf()); real.target=nfc.clf.RemoteTarget('212F'); real.miu=251; real.pni=0; real.rwt=0.01
    llc.mac=real
pipe=Pipe()
a=L.LogicalLinkController(miu=200, lto=300); b=L.LogicalLinkController(miu=300, lto=300)
res={}
def runA():
    a.activate(MacIO(pipe))
    try: a.run(); res['runA']='returned'
    except BaseException as e: res['runA']='raised '+type(e).__name__
ta=threading.Thread(target=runA); tb=threading.Thread(target=lambda: (b.activate(MacT(pipe)), b.run()))
ta.start(); tb.start()
while not (a.link.ESTABLISHED and b.link.ESTABLISHED): time.sleep(0.001)
s=nfc.llcp.Socket(a, nfc.llcp.LOGICAL_DATA_LINK); s.bind(33)
def waiter():
    try: res['recv']=('ret', s.recvfrom())
    except Exception as e: res['recv']=('raised', repr(e))
tw=threading.Thread(target=waiter, daemon=True); tw.start(); time.sleep(0.05)
swap_in_real_initiator(a)
ta.join(3); tb.join(3); tw.join(2)
print('run loop A:', res.get('runA'), '| link state:', str(a.link), '| blocked recvfrom thread alive (hang):', tw.is_alive(), '| result:', res.get('recv'))
