import nfc, nfc.dep, nfc.llcp, nfc.llcp.llc as L, nfc.handover, threading, queue, time, ndef
exec(open(__import__('os').path.join(__import__('os').path.dirname(__file__),'probe_fakemac_snep_and_late_connect.py')).read().split("pipe=Pipe()")[0])
pipe=Pipe()
a=L.LogicalLinkController(miu=200, lto=300); b=L.LogicalLinkController(miu=300, lto=300)
got=[]
class Srv(nfc.handover.HandoverServer):
    def process_handover_request_message(self, records): got.append(records); return [ndef.HandoverSelectRecord('1.3')]
Srv(b).start()
ta=threading.Thread(target=lambda: (a.activate(MacI(pipe)), a.run())); tb=threading.Thread(target=lambda: (b.activate(MacT(pipe)), b.run()))
ta.start(); tb.start()
while not (a.link.ESTABLISHED and b.link.ESTABLISHED): time.sleep(0.001)
c=nfc.handover.HandoverClient(a); c.connect()
hr=ndef.HandoverRequestRecord('1.3', 1234)
print('send1', c.send_records([hr])); print('recv1', c.recv_records(timeout=1.0))
hr2=ndef.HandoverRequestRecord('1.3', 4321); print('send2', c.send_records([hr2])); print('recv2', c.recv_records(timeout=1.0))
print('server saw', [r[0].collision_resolution_number for r in got])
c.close(); pipe.broken=True; ta.join(3); tb.join(3)
