import sys, faulthandler
faulthandler.dump_traceback_later(60, exit=True)
sys.path.insert(0, "/verif"); sys.path.insert(0, "/repo/src")
import nfc, nfc.clf, nfc.tag.tt4 as tt4
from vf.sim import t4t, tagdevice
for fwi in (4, 8, 12):
    card = t4t.T4TCard(kind="A", fsci=8, fwi=fwi)
    card.responder = lambda a: b"RSP-" + bytes(a[:2]) + b"\x90\x00"
    clf, dev, tag = tagdevice.activate(card)
    base = dev.n_commands
    # APDU1: response lost on every attempt -> Type4TagCommandError (card executed it)
    plan = {"phase": 1}
    def script(n, d):
        if plan["phase"] == 1:
            return ("rsp_lost", nfc.clf.TimeoutError)
        if plan["phase"] == 2:
            plan["phase"] = 3
            return ("cmd_lost", nfc.clf.TimeoutError)     # APDU2's first I-block lost once
        return None
    dev.script = script
    try:
        print("fwi", fwi, "APDU1 ->", tag.transceive(b"\xA1\x01"))
    except tt4.Type4TagCommandError as e:
        print("fwi", fwi, "APDU1 -> Type4TagCommandError errno", e.errno)
    plan["phase"] = 2
    try:
        r = tag.transceive(b"\xA2\x02")
        print("   APDU2 ->", bytes(r), "  <-- expected", b"RSP-\xa2\x02\x90\x00")
    except tt4.Type4TagCommandError as e:
        print("   APDU2 -> Type4TagCommandError errno", e.errno)
    print("   card executed:", [a.hex() for a, r in card.apdu_log])
    for n, c, r in dev.log[base:]:
        print("     ", n, c.hex() if c else c, "->", r.hex() if isinstance(r, bytes) else r)
