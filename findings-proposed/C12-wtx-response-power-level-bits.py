import sys, faulthandler
faulthandler.dump_traceback_later(60, exit=True)
sys.path.insert(0, "/verif"); sys.path.insert(0, "/repo/src")
import nfc, nfc.clf, nfc.tag.tt4 as tt4
from vf.sim import t4t, tagdevice
for strict in (False, True):
    card = t4t.T4TCard(kind="A", fsci=8, fwi=4)
    card.responder = lambda a: b"\x01\x02\x90\x00"
    card.wtx_power, card.wtx_strict = 2, strict          # power level indication 10b "sufficient power"
    card.wtx_fn = lambda c, out, rnd: 2 if rnd == 0 else 0   # one S(WTX) request, WTXM 2, before the answer
    clf, dev, tag = tagdevice.activate(card)
    try:
        print("strict" if strict else "lenient", "->", bytes(tag.transceive(b"\x90\xEC\x00\x01")).hex())
    except tt4.Type4TagCommandError as e:
        print("strict" if strict else "lenient", "-> Type4TagCommandError errno", e.errno, "after", dev.n_commands, "frames")
    for n, c, r in dev.log[1:6]:
        print("     ", n, c.hex() if c else c, "->", r.hex() if isinstance(r, bytes) else r)
