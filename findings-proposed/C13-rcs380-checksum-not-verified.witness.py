import sys, faulthandler; faulthandler.dump_traceback_later(60, exit=True)
sys.path.insert(0, sys.argv[1] if len(sys.argv) > 1 else "/repo/src")
import nfc.clf, nfc.clf.rcs380 as drv
ACK = bytes.fromhex("0000ff00ff00")
def frame(d):                                    # Port-100 frame: 00 00FF FFFF LEN(le16) LCS data DCS 00
    return b"\0\0\xff\xff\xff" + bytes([len(d) & 255, len(d) >> 8, -(len(d) & 255) - (len(d) >> 8) & 255]) + d + bytes([-sum(d) & 255, 0])
class T:                                         # transport: answers every command with status 0; InCommRF with `rsp`
    manufacturer_name = product_name = "x"; rsp = None; q = []
    def write(self, f, timeout=0):
        code = f[9] if len(f) > 9 else None
        pay = {0x20: b"\x11\x01", 0x22: b"\0\1", 0x04: b"\0\0\0\0\x08" + b"CARD-DATA-0123"}.get(code, b"\0")
        self.q = [] if code is None else [ACK, (self.rsp if code == 4 and self.rsp else frame(bytes([0xd7, code + 1]) + pay))]
    def read(self, timeout=0):
        if not self.q: raise IOError(110, "timeout")
        return bytearray(self.q.pop(0))
    def close(self): pass
t = T(); clf = nfc.clf.ContactlessFrontend(); clf.device = drv.init(t)
clf.target = nfc.clf.RemoteTarget("212F"); clf.target.sensf_res = bytearray(19)
good = frame(b"\xd7\x05\0\0\0\0\x08" + b"CARD-DATA-0123")
print("intact      ->", bytes(clf.exchange(b"\x02\x00", 0.1)))
for name, pos, x in (("payload bit", 16, 0x01), ("DCS", -2, 0x10), ("LEN low (LCS now wrong)", 5, 0x04), ("postamble", -1, 0xff)):
    m = bytearray(good); m[pos] ^= x; t.rsp = bytes(m)
    try: print("%-11s ->" % name, bytes(clf.exchange(b"\x02\x00", 0.1)))
    except Exception as e: print("%-11s -> %s" % (name, type(e).__name__))
